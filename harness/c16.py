"""C16 — evaluation metrics are perfect for perfect predictions, bounded and monotone.

Correspondence (every run): the real `sleap_nn.evaluation.Evaluator` on in-memory, video-backed
`sio.Labels` pairs (video object taken from tests/assets/minimal_instance.pkg.slp) against the Lean
model `SleapVerif.Eval` (+ `SleapVerif.Oks.matchInstances`) run through `drivers/C16.lean`.

* frame pairing, matching, positive pairs / false negatives, VOC metrics, mOKS, visibility counts run
  at `Rat`, on the OKS matrices that the real `compute_oks` returns for each frame (floats are dyadic
  rationals ⇒ every comparison of the model is bit-faithful); values compared with 1e-9 tolerance,
  indices / orders / counts exactly;
* `np.searchsorted(rc, np.linspace(0,1,101))` is a float knife-edge (`tp/npig` vs `k·0.01`): the model
  reports the smallest non-zero |rc_i − r| per match threshold; rows with margin < 1e-9 are not compared
  (counted in `knife_edges_skipped`);
* distances / PCK run at `Float` (`Float.sqrt`), tolerance 1e-9, PCK bits exact unless |d − thr| < 1e-9.
"""
from __future__ import annotations

import warnings
from fractions import Fraction

from common import Check, run_check, import_repo, run_driver, rat, unrat, lst, call, REPO

THEOREMS = [
    "SleapVerif.C16.ratios_in_unit",
    "SleapVerif.C16.moks_in_unit",
    "SleapVerif.C16.pck_in_unit",
    "SleapVerif.C16.vis_ratio_in_unit",
    "SleapVerif.C16.envelope_antitone",
    "SleapVerif.C16.recall_eq_recallAt",
    "SleapVerif.C16.AR_antitone_in_threshold",
    "SleapVerif.C16.AP_antitone_in_threshold",
    "SleapVerif.C16.pck_monotone_in_pixels",
    "SleapVerif.C16.recall_monotone_under_truncation_partial",
    "SleapVerif.C16.recall_deletion_counterexample",
    "SleapVerif.C16.recall_frame_removal_counterexample",
    "SleapVerif.C16.perfect_matching",
    "SleapVerif.C16.perfect_scores",
]

EPS = Fraction(2) ** -52
TOL = 1e-9
SIG_OUTSCORED = "deleted_prediction_outscored_a_better_match"
SIG_FRAME = "prediction_frame_removed_drops_gt_from_count"


def q16(rng, lo, hi):
    return rng.randrange(int(lo * 16), int(hi * 16) + 1) / 16.0


def fpt(p):
    return f"{rat(p[0])} {rat(p[1])}"


def fpts(a):
    return lst([tuple(r) for r in a], fpt)


def close(a, b, tol=TOL):
    if a is None or b is None:
        return a is None and b is None
    return abs(a - b) <= tol * max(1.0, abs(a), abs(b))


def nn(x):
    x = float(x)
    return None if x != x else x


def main(chk: Check):
    chk.build_and_audit()
    import_repo()
    import numpy as np
    import sleap_io as sio
    from sleap_nn import evaluation as ev

    warnings.simplefilter("ignore")
    np.seterr(all="ignore")
    try:
        from loguru import logger
        logger.remove()
    except Exception:
        pass
    rng = chk.rng
    video = sio.load_slp(str(REPO / "tests/assets/minimal_instance.pkg.slp")).videos[0]
    MT = np.linspace(0.5, 0.95, 10)
    RT = np.linspace(0, 1, 101)
    PT = np.linspace(1, 10, 10)

    def compute_oks_any(G, Pm, **kw):
        """compute_oks for any n_pr (one real call per prediction while F-C15b is unfixed)"""
        try:
            return ev.compute_oks(G, Pm, **kw)
        except IndexError:
            cols = [ev.compute_oks(G, Pm[j:j + 1], **kw) for j in range(Pm.shape[0])]
            return np.concatenate(cols, axis=1) if cols else np.zeros((G.shape[0], 0))

    # ------------------------------------------------------------------ building Labels
    def build(case):
        """case = {n_nodes, frames:[{gt:[pts], pr: None | [(score, pts)], extra_pred_in_gt: bool}]}"""
        sk = sio.Skeleton(nodes=[f"n{i}" for i in range(case["n_nodes"])])
        glf, plf, gi_all, pi_all = [], [], [], []
        for idx, f in enumerate(case["frames"]):
            gi = [sio.Instance.from_numpy(np.array(g, float), sk) for g in f["gt"]]
            insts = list(gi)
            if f.get("extra_pred_in_gt"):
                insts.append(sio.PredictedInstance.from_numpy(np.array(f["gt"][0], float) + 1.0, sk,
                                                              point_scores=np.ones(case["n_nodes"]), score=0.5))
            glf.append(sio.LabeledFrame(video=video, frame_idx=idx, instances=insts))
            gi_all.append(gi)
            if f["pr"] is not None:
                pi = [sio.PredictedInstance.from_numpy(np.array(p, float), sk, point_scores=np.ones(case["n_nodes"]),
                                                       score=float(s)) for s, p in f["pr"]]
                plf.append(sio.LabeledFrame(video=video, frame_idx=idx, instances=pi))
                pi_all.append(pi)
            else:
                pi_all.append(None)
        gl = sio.Labels(videos=[video], skeletons=[sk], labeled_frames=glf)
        pl = sio.Labels(videos=[video], skeletons=[sk], labeled_frames=plf)
        return gl, pl, gi_all, pi_all

    def run_impl(case):
        gl, pl, gi_all, pi_all = build(case)
        kw = dict(oks_stddev=case["stddev"], oks_scale=case["scale"], match_threshold=case["thr"])
        r = call(lambda: ev.Evaluator(gl, pl, **kw))
        if r[0] != "ok":
            return r, gi_all, pi_all
        e = r[1]
        m = call(e.evaluate)
        if m[0] != "ok":
            return m, gi_all, pi_all
        return ("ok", e, m[1]), gi_all, pi_all

    def locate(all_lists, inst):
        for f, l in enumerate(all_lists):
            if l is None:
                continue
            for i, x in enumerate(l):
                if x is inst:
                    return f, i
        return (-1, -1)  # an object that is neither a user gt instance nor a prediction of this case

    def canon_impl(res, gi_all, pi_all):
        _, e, m = res
        pairs = []
        for a, b, v in e.positive_pairs:
            f, g = locate(gi_all, a.instance)
            f2, p = locate(pi_all, b.instance)
            pairs.append((f if f == f2 else -1, g, p, float(v)))
        fns = [locate(gi_all, a.instance) for a in e.false_negatives]
        return pairs, fns, m

    def driver_line(case, gi_all, pi_all):
        fr = []
        for f, gi, pi in zip(case["frames"], gi_all, pi_all):
            gts = [g.numpy() for g in gi]  # what the code sees (sleap_io: NaN x ⇒ whole point NaN)
            prs = [] if pi is None else [p.numpy() for p in pi]
            scores = [] if pi is None else [float(p.score) for p in pi]
            if gts and prs:
                M = compute_oks_any(np.stack(gts), np.stack(prs), stddev=case["stddev"], scale=case["scale"])
            else:
                M = np.zeros((len(gts), len(prs)))
            fr.append(("1" if pi is not None else "0") + " " + lst(gts, fpts) + " "
                      + lst(list(zip(scores, prs)), lambda sp: rat(sp[0]) + " " + fpts(sp[1])) + " "
                      + " ".join(rat(nn(v)) for v in M.reshape(-1)))
        return (f"eval {rat(case['thr'])} {rat(EPS)} {lst(MT, rat)} {lst(RT, rat)} {lst(PT, rat)} "
                f"{case['n_nodes']} " + lst(fr, str))

    def parse_model(out):
        secs = [s.strip() for s in out.split(" | ")]
        d = {}
        t = secs[0].split()
        k = int(t[1])
        d["pairs"] = [(int(t[2 + 4 * i]), int(t[3 + 4 * i]), int(t[4 + 4 * i]), float(unrat(t[5 + 4 * i]))) for i in range(k)]
        t = secs[1].split()
        d["fns"] = [(int(t[2 + 2 * i]), int(t[3 + 2 * i])) for i in range(int(t[1]))]
        v = secs[2][2:].strip()
        if v == "none":
            d["voc"] = None
        else:
            parts = [[unrat(x) for x in p.split()] for p in v.split(";")]
            d["voc"] = dict(ms=parts[0], recalls=parts[1], AP=parts[2], mAP=parts[3][0], mAR=parts[4][0],
                            precisions=parts[5], margins=parts[6])
        d["mOKS"] = unrat(secs[3].split()[1])
        t = secs[4].split()
        d["vis"] = ([int(x) for x in t[1:5]], unrat(t[5]), unrat(t[6]))
        parts = [p.split() for p in secs[5][2:].split(";")]
        d["dists"] = [unrat(x) for x in parts[0]]
        d["avg"] = unrat(parts[1][0])
        d["parts"] = [unrat(x) for x in parts[2]]
        d["mPCK"] = unrat(parts[3][0])
        d["bits"] = parts[4][0] if parts[4] else ""
        d["pck_margin"] = unrat(parts[5][0])
        return d

    # ------------------------------------------------------------------ comparison
    def compare(case, res, gi_all, pi_all, out):
        """returns list of (what, impl, model) disagreements"""
        model = parse_model(out)
        any_pair = any(f["gt"] and f["pr"] is not None for f in case["frames"])
        if res[0] != "ok":
            if not any_pair and res[0] == "raise" and "Empty Frame Pairs" in res[2]:
                return []
            return [("Evaluator raised", res, "ok")]
        if not any_pair:
            return [("Evaluator did not raise on empty frame pairs", "ok", "raise")]
        pairs, fns, m = canon_impl(res, gi_all, pi_all)
        dis = []
        if pairs != model["pairs"]:
            dis.append(("positive_pairs", pairs, model["pairs"]))
        if fns != model["fns"]:
            dis.append(("false_negatives", fns, model["fns"]))
        if dis:
            return dis
        voc = m["voc_metrics"]
        if model["voc"] is None:
            if not (len(pairs) == 0 and all(np.all(np.asarray(v) == 0) for v in voc.values())):
                dis.append(("voc zero-dict", str(voc)[:200], "none"))
            if nn(m["mOKS"]["mOKS"]) is not None:
                dis.append(("mOKS", m["mOKS"]["mOKS"], None))
            return dis
        mv = model["voc"]
        if [float(x) for x in voc["oks_voc.match_scores"]] != [float(x) for x in mv["ms"]]:
            dis.append(("match_scores order", list(voc["oks_voc.match_scores"]), [float(x) for x in mv["ms"]]))
        if not all(close(float(a), float(b)) for a, b in zip(voc["oks_voc.recalls"], mv["recalls"])):
            dis.append(("recalls", list(voc["oks_voc.recalls"]), [float(x) for x in mv["recalls"]]))
        if not close(float(voc["oks_voc.mAR"]), float(mv["mAR"])):
            dis.append(("mAR", float(voc["oks_voc.mAR"]), float(mv["mAR"])))
        knife = False
        P = voc["oks_voc.precisions"]
        for i in range(len(MT)):
            mg = mv["margins"][i]
            if 0 <= mg < Fraction(1, 10**9):
                knife = True
                continue
            row = [float(x) for x in mv["precisions"][i * len(RT):(i + 1) * len(RT)]]
            if not all(close(float(a), b) for a, b in zip(P[i], row)):
                dis.append((f"precisions[{i}]", [float(x) for x in P[i]][:12], row[:12]))
            if not close(float(voc["oks_voc.AP"][i]), float(mv["AP"][i])):
                dis.append((f"AP[{i}]", float(voc["oks_voc.AP"][i]), float(mv["AP"][i])))
        if knife:
            chk.knife_edges += 1
        elif not close(float(voc["oks_voc.mAP"]), float(mv["mAP"])):
            dis.append(("mAP", float(voc["oks_voc.mAP"]), float(mv["mAP"])))
        if not close(nn(m["mOKS"]["mOKS"]), None if model["mOKS"] is None else float(model["mOKS"])):
            dis.append(("mOKS", m["mOKS"]["mOKS"], model["mOKS"]))
        vm = m["visibility_metrics"]
        ivis = [int(vm["tp"]), int(vm["fp"]), int(vm["tn"]), int(vm["fn"])]
        if ivis != model["vis"][0]:
            dis.append(("visibility counts", ivis, model["vis"][0]))
        for key, mvv in (("precision", model["vis"][1]), ("recall", model["vis"][2])):
            if not close(nn(vm[key]), None if mvv is None else float(mvv)):
                dis.append(("visibility " + key, vm[key], mvv))
        dm = m["distance_metrics"]
        idists = [nn(x) for x in np.asarray(dm["dists"]).reshape(-1)]
        if len(idists) != len(model["dists"]) or not all(close(a, b) for a, b in zip(idists, model["dists"])):
            dis.append(("dists", idists[:10], model["dists"][:10]))
        if not close(nn(dm["avg"]), model["avg"]):
            dis.append(("avg dist", dm["avg"], model["avg"]))
        pm = m["pck_metrics"]
        if model["pck_margin"] is not None and model["pck_margin"] < 1e-9 and model["pck_margin"] != 0.0:
            chk.knife_edges += 1
        else:
            ibits = "".join("1" if b else "0" for b in np.asarray(pm["pcks"]).reshape(-1))
            if ibits != model["bits"]:
                dis.append(("pcks", ibits[:60], model["bits"][:60]))
            if not all(close(float(a), b) for a, b in zip(pm["mPCK_parts"], model["parts"])):
                dis.append(("mPCK_parts", list(pm["mPCK_parts"]), model["parts"]))
            if not close(float(pm["mPCK"]), model["mPCK"]):
                dis.append(("mPCK", float(pm["mPCK"]), model["mPCK"]))
        return dis

    # ------------------------------------------------------------------ property oracle (independent)
    def recalls_of(case):
        res, _, _ = run_impl(case)
        if res[0] != "ok":
            return None, res
        v = res[2]["voc_metrics"]
        r = v["oks_voc.recalls"]
        return (np.zeros(len(MT)) if np.isscalar(r) else np.asarray(r, float)), res

    def oracle_bounds(case, res):
        bad = []
        _, e, m = res
        v = m["voc_metrics"]
        for k in ("precisions", "recalls", "AP", "AR", "mAP", "mAR"):
            a = np.asarray(v["oks_voc." + k], float)
            if not (np.all(a >= 0) and np.all(a <= 1 + 1e-12)):
                bad.append(("ratio out of [0,1]: " + k, a.reshape(-1)[:5].tolist()))
        if len(e.positive_pairs):
            for name, a in (("mOKS", m["mOKS"]["mOKS"]), ("mPCK", m["pck_metrics"]["mPCK"]),
                            ("mPCK_parts", m["pck_metrics"]["mPCK_parts"])):
                a = np.asarray(a, float)
                if not (np.all(a >= 0) and np.all(a <= 1 + 1e-12)):
                    bad.append(("ratio out of [0,1]: " + name, a.reshape(-1)[:5].tolist()))
            AR = np.asarray(v["oks_voc.AR"], float); AP = np.asarray(v["oks_voc.AP"], float)
            if np.any(np.diff(AR) > 1e-12):
                bad.append(("AR increases with the match threshold", AR.tolist()))
            if np.any(np.diff(AP) > 1e-12):
                bad.append(("AP increases with the match threshold", AP.tolist()))
            pc = np.asarray(m["pck_metrics"]["pcks"], float).mean(axis=(0, 1))
            if np.any(np.diff(pc) < -1e-12):
                bad.append(("PCK decreases with the pixel threshold", pc.tolist()))
        for k in ("precision", "recall"):
            x = nn(m["visibility_metrics"][k])
            if x is not None and not (0 <= x <= 1):
                bad.append(("visibility ratio out of [0,1]", x))
        for b in bad:
            chk.fail("metric contract violated: " + b[0], case, observed=b[1])
        return not bad

    def match_map(res, gi_all, pi_all):
        pairs, fns, _ = canon_impl(res, gi_all, pi_all)
        return {(f, p): (g, v) for f, g, p, v in pairs}

    def oracle_deletion(case, res, gi_all, pi_all, n_try):
        """sample deletions; recall must not increase.  top-k truncation = the region the proved
        `_partial` theorem covers (any failure there is a plain violation); arbitrary deletions and
        removal of whole prediction frames are the excluded region (F-C16 / F-C16b)."""
        base = np.asarray(res[2]["voc_metrics"]["oks_voc.recalls"], float)
        if base.ndim == 0:
            base = np.zeros(len(MT))
        orig = match_map(res, gi_all, pi_all)
        for t in range(n_try):
            mode = rng.choice(["topk", "arbitrary", "arbitrary", "frame"])
            new = {**case, "frames": []}
            deleted = []
            removed_frames = []
            for fi, f in enumerate(case["frames"]):
                if f["pr"] is None:
                    new["frames"].append(f); continue
                if mode == "topk":
                    k = rng.randrange(0, len(f["pr"]) + 1)
                    order = sorted(range(len(f["pr"])), key=lambda j: -f["pr"][j][0])  # stable, descending
                    keep = sorted(order[:k])
                elif mode == "arbitrary":
                    keep = [j for j in range(len(f["pr"])) if rng.random() < 0.6]
                else:
                    keep = list(range(len(f["pr"])))
                    if rng.random() < 0.5:
                        removed_frames.append(fi)
                        deleted += [(fi, j) for j in range(len(f["pr"]))]
                        new["frames"].append({**f, "pr": None}); continue
                deleted += [(fi, j) for j in range(len(f["pr"])) if j not in keep]
                new["frames"].append({**f, "pr": [f["pr"][j] for j in keep], "_keep": keep})
            if not deleted:
                continue
            after, res2 = recalls_of(new)
            chk.tag("deletion:" + mode)
            if after is None:
                if "Empty Frame Pairs" in str(res2):
                    continue
                chk.fail("Evaluator raised after deleting predictions", new, observed=res2); continue
            if np.any(after > base + 1e-12):
                sigs = []
                if mode == "frame" and any(case["frames"][fi]["gt"] for fi in removed_frames):
                    sigs.append(SIG_FRAME)
                if mode == "arbitrary":
                    # structural predicate: a deleted prediction held a gt in the original matching and a
                    # kept prediction of the same frame now gets a better (or its first) match
                    gl2, pl2, gi2, pi2 = build(new)
                    e2 = ev.Evaluator(gl2, pl2, oks_stddev=case["stddev"], oks_scale=case["scale"],
                                      match_threshold=case["thr"])
                    after_map = {}
                    for a, b, v in e2.positive_pairs:
                        f_, j_ = locate(pi2, b.instance)
                        after_map[(f_, new["frames"][f_]["_keep"][j_])] = float(v)
                    held = [d for d in deleted if d in orig]
                    better = [k for k, v in after_map.items() if v > orig.get(k, (None, -1.0))[1]
                              and any(d[0] == k[0] for d in held)]
                    if held and better:
                        sigs.append(SIG_OUTSCORED)
                chk.fail(f"deleting predictions ({mode}) increased recall", {"case": case, "deleted": deleted},
                         observed={"before": base.tolist(), "after": after.tolist()}, signatures=sigs)

    def oracle_perfect(case, res):
        _, e, m = res
        bad = []
        npig = sum(len(f["gt"]) for f in case["frames"])
        if len(e.positive_pairs) != npig or e.false_negatives:
            bad.append(("not every gt matched", (len(e.positive_pairs), npig)))
        else:
            if not close(float(m["mOKS"]["mOKS"]), 1.0, 1e-12):
                bad.append(("mOKS != 1", float(m["mOKS"]["mOKS"])))
            d = np.asarray(m["distance_metrics"]["dists"], float)
            if np.nanmax(np.where(np.isnan(d), 0, d)) != 0:
                bad.append(("non-zero distance", float(np.nanmax(d))))
            for k in ("avg", "p50", "p90", "p99"):
                x = nn(m["distance_metrics"][k])
                if x not in (0.0, None):
                    bad.append(("distance summary " + k, x))
            v = m["voc_metrics"]
            if not np.allclose(v["oks_voc.AR"], 1, atol=1e-12):
                bad.append(("AR != 1", np.asarray(v["oks_voc.AR"]).tolist()))
            if not np.all(np.asarray(v["oks_voc.AP"]) >= 1 - 1e-9):
                bad.append(("AP < 1", np.asarray(v["oks_voc.AP"]).tolist()))
            vis = sum(int((~np.isnan(a.instance.numpy()).any(-1)).sum()) for a, _, _ in e.positive_pairs)
            tot = npig * case["n_nodes"]
            if not close(float(m["pck_metrics"]["mPCK"]), vis / tot, 1e-12):
                bad.append(("mPCK != fraction of visible gt keypoints", (float(m["pck_metrics"]["mPCK"]), vis / tot)))
        for b in bad:
            chk.fail("perfect predictions do not score perfectly: " + b[0], case, observed=b[1])

    # ------------------------------------------------------------------ generators
    def gen_instance(n_nodes, centre=None):
        cx, cy = centre if centre else (q16(rng, 40, 340), q16(rng, 40, 340))
        span = rng.choice([6, 12, 24, 40])
        return [[cx + q16(rng, -span, span), cy + q16(rng, -span, span)] for _ in range(n_nodes)]

    def with_nan(pts, p=0.25):
        pts = [list(x) for x in pts]
        if rng.random() < p:
            k = rng.randrange(len(pts))
            mode = rng.choice(["point", "point", "y"])
            if mode == "point":
                pts[k] = [float("nan"), float("nan")]
            else:
                pts[k][1] = float("nan")
        return pts

    def gen_case(perfect=False):
        n_nodes = rng.choice([2, 3, 3, 4, 5])
        frames = []
        for _ in range(rng.choice([1, 1, 2, 3, 4])):
            crowded = rng.random() < 0.5
            centre = (q16(rng, 60, 300), q16(rng, 60, 300))
            n_gt = rng.choice([1, 1, 2, 2, 3, 4]) if (perfect or rng.random() < 0.93) else 0
            gts = []
            for _ in range(n_gt):
                g = with_nan(gen_instance(n_nodes, centre if crowded else None))
                if not any(x == x and y == y for x, y in g):
                    g[0] = [centre[0], centre[1]]
                gts.append(g)
            if perfect:
                # gt must be pairwise distinguishable on their visible nodes: regenerate clones
                pr = [(rng.choice([0.3, 0.5, 0.5, 0.9, rng.random()]), [list(x) for x in g]) for g in gts]
                rng.shuffle(pr)
                frames.append({"gt": gts, "pr": pr})
                continue
            if rng.random() < 0.1:
                pr = None
            else:
                pr = []
                for g in gts:
                    u = rng.random()
                    if u < 0.15:
                        continue  # missed animal
                    amp = rng.choice([0, 0.5, 1, 2, 4, 10])
                    p = [[(x if x == x else centre[0]) + (q16(rng, -amp, amp) if amp else 0),
                          (y if y == y else centre[1]) + (q16(rng, -amp, amp) if amp else 0)] for x, y in g]
                    pr.append((rng.choice([0.25, 0.5, 0.5, 0.75, 0.9, rng.random()]), with_nan(p, 0.15)))
                    if rng.random() < 0.2:  # a second, competing detection of the same animal
                        amp2 = rng.choice([0.5, 1, 3])
                        p2 = [[(x if x == x else centre[0]) + q16(rng, -amp2, amp2),
                               (y if y == y else centre[1]) + q16(rng, -amp2, amp2)] for x, y in g]
                        pr.append((rng.choice([0.25, 0.5, 0.95, rng.random()]), p2))
                for _ in range(rng.choice([0, 0, 0, 1, 2])):
                    pr.append((rng.random(), gen_instance(n_nodes)))  # false positives
                rng.shuffle(pr)
            frames.append({"gt": gts, "pr": pr, "extra_pred_in_gt": bool(gts) and rng.random() < 0.1})
        return {"n_nodes": n_nodes, "frames": frames, "stddev": rng.choice([0.025, 0.05, 0.1]),
                "scale": rng.choice([None, None, q16(rng, 50, 2000)]), "thr": rng.choice([0, 0, 0, 0.3])}

    def distinguishable(case):
        for f in case["frames"]:
            for i, a in enumerate(f["gt"]):
                for j, b in enumerate(f["gt"]):
                    if i != j:
                        va = [(x, y) for x, y in a if x == x and y == y]
                        # b restricted to a's visible nodes must differ somewhere (and be visible there or not)
                        same = all((bx == ax and by == ay) for (ax, ay), (bx, by) in zip(a, b) if ax == ax and ay == ay)
                        if same or not va:
                            return False
        return True

    # ------------------------------------------------------------------ known findings: replay witnesses
    def case_from_witness(w):
        return {"n_nodes": w["n_nodes"], "frames": [dict(f, pr=None if f["pr"] is None else [tuple(x) for x in f["pr"]])
                                                    for f in w["frames"]],
                "stddev": 0.025, "scale": None, "thr": 0}

    for fid in ("F-C16", "F-C16b"):
        ent = next((f for f in chk.known if f["id"] == fid), None)
        if ent is None:
            continue
        w = ent["witness"]
        b, _ = recalls_of(case_from_witness(w["before"]))
        a, _ = recalls_of(case_from_witness(w["after"]))
        chk.known_replay(fid, still_fails=bool(b is not None and a is not None and np.any(a > b + 1e-12)),
                         detail=f"before={None if b is None else b.tolist()} after={None if a is None else a.tolist()}")

    # ------------------------------------------------------------------ main loop
    n_cases = chk.n(330, 4000)
    n_perfect = chk.n(70, 800)
    cases = [("gen", gen_case()) for _ in range(n_cases)]
    k = 0
    while k < n_perfect:
        c = gen_case(perfect=True)
        if distinguishable(c):
            cases.append(("perfect", c)); k += 1
    impls, lines = [], []
    for kind, case in cases:
        res, gi_all, pi_all = run_impl(case)
        impls.append((res, gi_all, pi_all))
        lines.append(driver_line(case, gi_all, pi_all))
    outs = run_driver("C16.lean", lines)
    for (kind, case), (res, gi_all, pi_all), line, out in zip(cases, impls, lines, outs):
        dis = compare(case, res, gi_all, pi_all, out)
        npairs = len(res[1].positive_pairs) if res[0] == "ok" else 0
        tags = [kind, f"frames{len(case['frames'])}", "ok" if res[0] == "ok" else "raise",
                "pairs0" if npairs == 0 else "pairs+"]
        chk.case(("eval", line) if npairs else None,
                 sample={"case": case, "AR": np.asarray(res[2]["voc_metrics"]["oks_voc.AR"]).tolist()}
                 if npairs and len(chk.samples) < 3 else None, tags=tags)
        for what, i, mo in dis:
            chk.disagree("Evaluator vs Eval model: " + what, case, str(i)[:400], str(mo)[:400])
        if res[0] == "ok":
            oracle_bounds(case, res)
            if kind == "perfect":
                oracle_perfect(case, res)
            oracle_deletion(case, res, gi_all, pi_all, n_try=2 if not dis else 6)


if __name__ == "__main__":
    chk = Check(
        "C16", module="SleapVerif.Props.C16", theorems=THEOREMS,
        build_targets=["SleapVerif.Model.Proto", "SleapVerif.Model.Oks", "SleapVerif.Model.Eval"],
        trusted=[
            "Lean 4 kernel + Mathlib; the hand-written model SleapVerif.Eval mirrors Evaluator (tied by this correspondence run)",
            "compute_oks values are taken from the implementation (their contract is C15's); float64 ≈ field arithmetic within 1e-9",
            "np.searchsorted on a sorted array = index of the first element >= threshold (binary search correctness)",
            "sleap_io Labels.find / LabeledFrame.user_instances / Instance.numpy() behave as read",
        ],
        rule="seeded generator: 1-4 frames x 0-4 gt x 0-7 predictions (noisy copies, competing duplicates, misses, false "
             "positives, missing prediction frames, NaN nodes), 2-5 nodes on the k/16 lattice, stddev/scale/threshold options; "
             "plus perfect-prediction cases; distinct = distinct driver line with >= 1 positive pair",
        assumptions=[
            "prediction frames contain only PredictedInstance objects; at most one prediction LabeledFrame per frame index",
            "match_score_by='oks' and the default threshold grids (linspace(0.5,0.95,10), linspace(0,1,101), linspace(1,10,10))",
        ],
    )
    run_check(chk, main)
