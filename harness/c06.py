"""C06 — multi-peak detection returns exactly the strict local maxima above threshold;
integral refinement preserves count/order/indices and moves at most half a patch.

Model: lean/SleapVerif/Model/Peaks.lean; theorems: lean/SleapVerif/Props/C06.lean.
Correspondence: `find_local_peaks_rough`, `find_local_peaks(refinement in {None,"integral"})`,
`integral_regression` (real code, real kornia dilation / crop_and_resize) vs the Lean driver
(run at Rat on the exact values of the maps).  Maps come in float64 / float32 / float16 / bfloat16: the
model is dtype-agnostic — comparisons are exact in the map's own dtype, coordinates are float32
integers, values keep the map's dtype (all compared exactly).  Integral refinement of
half-precision maps is out of domain on the unchanged tree (kornia raises `_LinAlgError` / returns
NaN): recorded by `half_refine_probe` in the evidence, never judged.

Comparison: peak sets, order, (x,y), sample, channel, values: exact.  Refined points: kornia's
crop goes through a float32 perspective solve + bilinear sampling (patch entries off by up to
2.4e-7) and the points are float32 numbers up to ~10; observed |impl - model| reaches
1e-5·kappa, kappa = Σ|P|/|ΣP| (1 for a non-negative patch), so a flat 1e-5 would raise false
alarms.  Tolerance: `5e-5 * max(1, cond)`, `cond = ((p+1)/2)·kappa` (>= 10x the observed noise,
<= 1/100 of the effect of any mutation tried); patches with |ΣP| < 1e-3·Σ|P| are knife-edges
(the code divides by ~0), counted and skipped.
"""
import math
from fractions import Fraction

from common import Check, call, import_repo, lst, rat, run_check, run_driver, unrat

THEOREMS = [
    "SleapVerif.C06.local_peaks_iff",
    "SleapVerif.C06.local_peaks_sorted",
    "SleapVerif.C06.local_peaks_nodup",
    "SleapVerif.C06.local_peaks_batch_independent",
    "SleapVerif.C06.refine_preserves",
    "SleapVerif.C06.refine_crop_index",
    "SleapVerif.C06.refine_bounded_partial",
    "SleapVerif.C06.refine_bounded_of_nonneg_map",
    "SleapVerif.C06.refine_displacement_le",
    "SleapVerif.C06.local_peaks_refined_fields",
    "SleapVerif.C06.refine_unbounded_counterexample",
]

BIG = 10000


# ------------------------------------------------------------------ generators (ints = value * den)
def gen_map(rng, h, w, kind, den):
    lo, hi = (-den, den) if kind.endswith("neg") else (0, den)
    base = kind.replace("_neg", "")
    if base == "field":
        levels = rng.choice([2, 3, 5, 2 * den + 1])
        vals = sorted(rng.sample(range(lo, hi + 1), min(levels, hi - lo + 1)))
        return [[rng.choice(vals) for _ in range(w)] for _ in range(h)]
    if base == "plateau":
        m = [[rng.randrange(lo, max(lo + 1, hi // 2)) for _ in range(w)] for _ in range(h)]
        for _ in range(rng.randrange(1, 4)):
            i0, j0 = rng.randrange(h), rng.randrange(w)
            for i in range(i0, min(h, i0 + rng.randrange(1, 4))):
                for j in range(j0, min(w, j0 + rng.randrange(1, 4))):
                    m[i][j] = hi
        return m
    if base == "sparse":
        bg = rng.choice([0, lo])
        m = [[bg for _ in range(w)] for _ in range(h)]
        for _ in range(rng.randrange(1, 6)):
            i, j = rng.choice([0, h - 1, rng.randrange(h)]), rng.choice([0, w - 1, rng.randrange(w)])
            m[i][j] = rng.randrange(1, hi + 1)
            if kind.endswith("neg") and rng.random() < 0.7:
                di, dj = rng.choice([(0, 1), (0, -1), (1, 0), (-1, 0), (1, 1), (2, 0), (0, 2)])
                if 0 <= i + di < h and 0 <= j + dj < w:
                    m[i + di][j + dj] = -rng.randrange(1, hi + 1)
        return m
    if base == "bumps":
        m = [[0 for _ in range(w)] for _ in range(h)]
        for _ in range(rng.randrange(1, 4)):
            cy, cx, s = rng.uniform(-0.5, h - 0.5), rng.uniform(-0.5, w - 0.5), rng.choice([0.7, 1.0, 1.5, 2.5])
            for i in range(h):
                for j in range(w):
                    m[i][j] = max(m[i][j], round(den * math.exp(-((i - cy) ** 2 + (j - cx) ** 2) / (2 * s * s))))
        if kind.endswith("neg"):
            for _ in range(rng.randrange(1, 4)):
                m[rng.randrange(h)][rng.randrange(w)] = -rng.randrange(1, den + 1)
        return m
    raise ValueError(kind)


KINDS = ["field", "field_neg", "plateau", "plateau_neg", "sparse", "sparse_neg", "bumps", "bumps_neg"]
THRS = [(0.2, Fraction(1, 5)), (0.0, Fraction(0)), (0.125, Fraction(1, 8)), (0.5, Fraction(1, 2)),
        (-0.25, Fraction(-1, 4)), (-float(BIG), Fraction(-BIG)), (0.75, Fraction(3, 4))]


def gen_case(rng):
    shape = rng.choice(["1x1", "1xN", "Nx1", "small", "small", "mid", "mid", "mid"])
    if rng.random() < 0.04:
        shape = "large"
    if shape == "large":
        h, w = rng.randrange(11, 25), rng.randrange(11, 25)
    elif shape == "1x1":
        h, w = 1, 1
    elif shape == "1xN":
        h, w = 1, rng.randrange(2, 9)
    elif shape == "Nx1":
        h, w = rng.randrange(2, 9), 1
    elif shape == "small":
        h, w = rng.randrange(2, 5), rng.randrange(2, 5)
    else:
        h, w = rng.randrange(4, 11), rng.randrange(4, 11)
    S, C = rng.randrange(1, 4), rng.randrange(1, 4)
    if rng.random() < 0.05:
        S, C = rng.randrange(1, 6), rng.randrange(1, 6)
    den = rng.choice([8, 8, 16])
    kinds = [rng.choice(KINDS) for _ in range(S * C)] if rng.random() < 0.5 else [rng.choice(KINDS)] * (S * C)
    maps = [gen_map(rng, h, w, k, den) for k in kinds]
    if S * C > 1 and rng.random() < 0.25:  # identical maps in different slots: index mix-ups stay visible
        maps[rng.randrange(S * C)] = [row[:] for row in maps[0]]
    p = rng.choice([0, 1, 2, 3, 3, 4, 5, 5, 6, 7, 8])  # integral_patch_size; 0 = refinement None
    dtype = rng.choice(DTYPE_MIX)
    if dtype in HALF and rng.random() < 0.4:
        p = 0  # (the rest keeps its patch size: excluded region F-C06half, see half_precision_refine)
    kind = "+".join(sorted(set(kinds)))
    if dtype == "f64" and rng.random() < 0.5:
        # float64-only structure: differences far below float32 resolution
        maps, den = [float64_special(rng, h, w, [[v / den for v in row] for row in m]) for m in maps], 1
        kind = "f64special"
    thr = pick_thr(rng, dtype)
    if kind == "f64special" and thr > -PAD_THR and rng.random() < 0.5:
        # float64 values just below / at / just above the threshold (a float32 comparison would confuse them)
        for m in maps:
            for _ in range(rng.randrange(1, 3)):
                i, j = rng.randrange(h), rng.randrange(w)
                for ii in range(max(0, i - 1), min(h, i + 2)):
                    for jj in range(max(0, j - 1), min(w, j + 2)):
                        m[ii][jj] = min(m[ii][jj], thr - 0.0625)
                m[i][j] = thr + rng.choice([-2e-10, -1e-10, 0.0, 1e-10, 2e-10])
        kind = "f64special+thr_edge"
    if dtype in ("f32", "f64") and rng.random() < 0.06:
        # values around kornia's pad constant -1e4 (and +1e4); thresholds at and BELOW -1e4 (the latter is the excluded
        # region of local_peaks_iff's hypothesis -big <= thr: finding F-C06pad)
        lv = rng.sample(BIG_LEVELS, rng.randrange(2, 6))
        maps, den, kind = [[[rng.choice(lv) for _ in range(w)] for _ in range(h)] for _ in range(S * C)], 2, "bigval"
        thr = rng.choice([-10000.0, -10000.0, -15000.0, -20000.0, -9999.5, 0.0])
    return {"S": S, "C": C, "h": h, "w": w, "den": den, "maps": maps, "thr": thr, "p": p,
            "dtype": dtype, "kind": kind, "shape": shape}


# twice the value (den = 2): -20000, -15000, -10000.5, -10000, -9999.5, -9000, 0, 1, 9999.5, 10000, 10000.5
BIG_LEVELS = [-40000, -30000, -20001, -20000, -19999, -18000, 0, 2, 19999, 20000, 20001]


HALF = ("f16", "bf16")
PAD_THR = 9000.0
DTYPE_MIX = ["f32"] * 5 + ["f64"] * 3 + ["f16", "bf16"]
DYADIC_THRS = [t for t, q in THRS if q.denominator in (1, 2, 4, 8)]


def pick_thr(rng, dtype):
    """0.2 is only used with float32 maps (torch compares in the map's dtype; float32(0.2) is never a lattice value);
    for the other dtypes thresholds are dyadic, hence the same number in every dtype and in the model"""
    return rng.choice(THRS)[0] if dtype == "f32" else rng.choice(DYADIC_THRS)


def float64_special(rng, h, w, base):
    """float64 maps whose decisive differences are below float32 resolution (~6e-8 relative):
    `near`: lattice values + k*1e-10 (adjacent near-ties, incl. pairs 0.5+1e-10 / 0.5+2e-10);
    `broad`: a very broad Gaussian peaking at exactly 1.0 on a cell (neighbours are 1 - O(1e-9))"""
    if rng.random() < 0.5:
        m = [[v + rng.randrange(0, 4) * 1e-10 for v in row] for row in base]
        for _ in range(rng.randrange(1, 4)):
            i, j = rng.randrange(h), rng.randrange(w)
            top = max(max(r) for r in m) if rng.random() < 0.5 else m[i][j]
            top = float(round(top * 16) / 16)
            m[i][j] = top + 2e-10
            di, dj = rng.choice([(0, 1), (1, 0), (1, 1), (0, -1), (-1, 0), (1, -1)])
            if 0 <= i + di < h and 0 <= j + dj < w:
                m[i + di][j + dj] = top + 1e-10
        return m
    import math
    cy, cx, sig = rng.randrange(h), rng.randrange(w), rng.choice([5e3, 2e4, 1e5, 1e6])
    return [[math.exp(-((i - cy) ** 2 + (j - cx) ** 2) / (2 * sig * sig)) for j in range(w)] for i in range(h)]


def big_half_case(rng):
    """one long map in a half-precision dtype with sides beyond the dtype's exact-integer range"""
    dtype = rng.choice(["bf16", "bf16", "f16"])
    n = rng.randrange(262, 300) if dtype == "bf16" else rng.randrange(2052, 2100)
    lo = 257 if dtype == "bf16" else 2049
    along_x = rng.random() < 0.5
    h, w = (rng.randrange(1, 3), n) if along_x else (n, rng.randrange(1, 3))
    m = [[0 for _ in range(w)] for _ in range(h)]
    for _ in range(rng.randrange(1, 4)):
        k = rng.randrange(lo, n) | 1  # odd index: not representable in the dtype
        k = min(k, n - 1)
        i, j = (rng.randrange(h), k) if along_x else (k, rng.randrange(w))
        m[i][j] = rng.randrange(4, 9)
    return {"S": 1, "C": 1, "h": h, "w": w, "den": 8, "maps": [m], "thr": 0.125, "p": rng.choice([0, 3, 5]),
            "dtype": dtype, "kind": "big_half", "shape": "big_half"}


def fail(chk, what, case, observed=None, signatures=(), clause=None):
    """chk.fail + bookkeeping for the evidence: how many oracle failures each known signature absorbed (and how many none did),
    and, for clause-structured oracles, which clause failed"""
    key = ",".join(signatures) if signatures else "(none: reported as VIOLATION)"
    d = chk.extra.setdefault("oracle_failures_by_signature", {})
    d[key] = d.get(key, 0) + 1
    for cl in (clause or []):
        c = chk.extra.setdefault("oracle_failures_by_clause", {})
        c[cl] = c.get(cl, 0) + 1
    chk.fail(what, case, observed, signatures)


def thr_rat(t):
    for f, q in THRS:
        if f == t:
            return q
    return Fraction(t)


# ------------------------------------------------------------------ implementation side
class Impl:
    def __init__(self):
        import numpy as np
        import torch
        from sleap_nn.inference import peak_finding as pf

        self.np, self.torch, self.pf = np, torch, pf

    def tensor(self, case):
        """maps are built in float64 (lattice values k/8, k/16 and all special values are exact there) and cast to the
        case's dtype; lattice values are exactly representable in float16 and bfloat16 as well"""
        t = self.torch.tensor(case["maps"], dtype=self.torch.float64) / case["den"]
        t = t.reshape(case["S"], case["C"], case["h"], case["w"])
        return t.to(getattr(self.torch, TORCH_DTYPE[case.get("dtype", "f32")]))

    def exact(self, cms):
        """the map's values as a float64 numpy array (exact upcast; numpy has no bfloat16)"""
        return cms.to(self.torch.float64).numpy()

    def canon(self, res):
        pts, vals, si, ci = res
        self.last_dtypes = tuple(str(t.dtype).replace("torch.", "") for t in (pts, vals, si, ci))
        if not (tuple(pts.shape) == (vals.shape[0], 2) and si.shape == vals.shape == ci.shape):
            return ("badshape", tuple(pts.shape), tuple(vals.shape), tuple(si.shape), tuple(ci.shape))
        return [(float(p[0]), float(p[1]), fr(v), int(s), int(c))
                for p, v, s, c in zip(pts.tolist(), vals.tolist(), si.tolist(), ci.tolist())]

    def rough(self, cms, thr):
        r = call(self.pf.find_local_peaks_rough, cms, threshold=thr)
        return ("raise",) + r[1:] if r[0] == "raise" else self.canon(r[1])

    def full(self, cms, thr, refinement, p):
        r = call(self.pf.find_local_peaks, cms, threshold=thr, refinement=refinement, integral_patch_size=p)
        return ("raise",) + r[1:] if r[0] == "raise" else self.canon(r[1])


TORCH_DTYPE = {"f64": "float64", "f32": "float32", "f16": "float16", "bf16": "bfloat16"}
# refined points: float32/float64 maps go through kornia's float32-accurate crop (see module docstring); for half-precision
# maps the crop is cast back to the map's dtype and integral_regression runs in it (unit round-off 4.9e-4 / 3.9e-3)
REFINE_TOL = {"f64": 5e-5, "f32": 5e-5, "f16": 1e-2, "bf16": 8e-2}
BOUND_SLACK = {"f64": 1e-4, "f32": 1e-4, "f16": 2e-2, "bf16": 1.5e-1}


def patch_size(case):
    """integral_patch_size of a case (0 = no refinement); older replay/corpus files carry r = (p-1)/2"""
    if "p" in case:
        return case["p"]
    return 2 * case["r"] + 1 if case.get("r") else 0


def model_line(case, cms):
    flat = [rat(float(x)) for x in cms.flatten().tolist()]
    return (f"local {rat(thr_rat(case['thr']))} {patch_size(case)} {case['S']} {case['C']} {case['h']} {case['w']} "
            + lst(flat))


def parse_model(line):
    t = line.split()
    n = int(t[0])
    out = []
    for k in range(n):
        x, y, v, s, c, px, py = t[1 + 7 * k: 8 + 7 * k]
        pt = None if px == "nan" else ("inf" if px == "inf" else (Fraction(px), Fraction(py)))
        out.append((int(x), int(y), Fraction(v), int(s), int(c), pt))
    assert len(t) == 1 + 7 * n, line[:200]
    return out


# ------------------------------------------------------------------ oracle (independent of the model)
def fr(v):
    """exact value of a float; non-finite values stay floats"""
    v = float(v)
    return Fraction(v) if v == v and abs(v) != float("inf") else v


def brute_peaks(np, a, thr32):
    """strict 8-neighbour local maxima above thr, in (sample,row,col,channel) order"""
    S, C, h, w = a.shape
    out = []
    for s in range(S):
        for i in range(h):
            for j in range(w):
                for c in range(C):
                    v = a[s, c, i, j]
                    if not v > thr32:
                        continue
                    ok = True
                    for di in (-1, 0, 1):
                        for dj in (-1, 0, 1):
                            ii, jj = i + di, j + dj
                            if (di or dj) and 0 <= ii < h and 0 <= jj < w and not v > a[s, c, ii, jj]:
                                ok = False
                    if ok:
                        out.append((float(j), float(i), fr(v), s, c))
    return out


def patch_of(np, a, s, c, x, y, p):
    """what crop_and_resize samples for a p x p box centred on cell (x,y) (zeros outside the map):
    the cells for odd p, the mean of the four surrounding cells (half-integer positions) for even p"""
    S, C, h, w = a.shape

    def Z(ii, jj):
        return float(a[s, c, ii, jj]) if 0 <= ii < h and 0 <= jj < w else 0.0

    P = np.zeros((p, p), dtype=np.float64)
    m = p // 2
    for u in range(p):
        for v in range(p):
            i0, j0 = y - m + u, x - m + v
            P[u, v] = Z(i0, j0) if p % 2 else (Z(i0, j0) + Z(i0, j0 + 1) + Z(i0 + 1, j0) + Z(i0 + 1, j0 + 1)) / 4
    return P


def eff_abs_sum(np, P, a2, p):
    """Σ|P| plus the bilinear leakage floor: kornia's sampling weights are off by ~2.4e-7, so every patch entry carries an
    absolute error of that size times the magnitude of the map around it — it matters when the patch itself is tiny
    (float64 maps with 1e-10-sized peaks next to O(1) cells)"""
    return float(np.abs(P).sum()) + 5e-3 * p * p * float(np.abs(a2).max())


def is_p1_raise(res, p):
    """integral_patch_size = 1: kornia's perspective solve of the degenerate box is singular (F-C06p1)"""
    return p == 1 and bool(res) and res[0] == "raise" and res[1] == "_LinAlgError"


def thr_in_dtype(np, thr, dtype):
    """the number torch compares with: the Python scalar is taken in the map's dtype (only float32 sees a non-dyadic one)"""
    return np.float64(np.float32(thr)) if dtype == "f32" else np.float64(thr)


def oracle_rough(np, a, thr, got, dtype="f32"):
    """`a` = the exact values of the map (float64 array): comparisons on it ARE comparisons in the input dtype"""
    if got and got[0] in ("raise", "badshape"):
        return f"{got[0]} {got[1:]}"
    want = brute_peaks(np, a, thr_in_dtype(np, thr, dtype))
    if got != want:
        missing = [p for p in want if p not in got]
        extra = [p for p in got if p not in want]
        oracle_rough.sigs = rough_signatures(np, a, missing, extra, dtype)
        return f"missing={missing[:3]} extra={extra[:3]} order_only={not missing and not extra}"
    oracle_rough.sigs = []
    return None


oracle_rough.sigs = []
PAD = 10000.0  # kornia's max_val


def rough_signatures(np, a, missing, extra, dtype):
    """structural predicates of a rough-detector failure (matched against known_findings signatures):
    * `peak_below_pad_constant` (F-C06pad): nothing extra, and every missing peak is a BORDER cell holding a value <= -1e4
      (the dilation pads the map with -1e4, so such a cell is never above its padding; only reachable with thr < -1e4);
    * `value_absorbs_pad_constant` (F-C06huge): nothing extra, and for every missing peak `v - 1e4` rounds back to `v` in the
      map's dtype (|v| >= 2^38 in float32, 2^67 in float64, +inf): the centre entry of the dilation equals the centre."""
    if extra or not missing:
        return []
    S, C, h, w = a.shape
    sigs = []
    if all(q[2] <= -PAD and (q[0] in (0.0, w - 1.0) or q[1] in (0.0, h - 1.0)) for q in missing):
        sigs.append("peak_below_pad_constant")
    npdt = {"f64": np.float64, "f32": np.float32, "f16": np.float16}.get(dtype)
    if npdt is not None:
        def absorbs(v):
            v = npdt(float(v))
            with np.errstate(all="ignore"):
                return bool(npdt(v - npdt(PAD)) == v)
        if all(absorbs(q[2]) for q in missing):
            sigs.append("value_absorbs_pad_constant")
    return sigs


def exact_offsets(a2, x, y, p):
    """exact (Fraction) integral regression on the TRUE patch of the (h,w) map `a2`: the cells (odd p) / four-cell means
    (even p) a p-crop around (x,y) reads, zeros outside the map.  Returns (sum, (dx, dy) | None)."""
    h, w = a2.shape
    m = p // 2

    def Z(i, j):
        return Fraction(float(a2[i, j])) if 0 <= i < h and 0 <= j < w else Fraction(0)

    z = xn = yn = Fraction(0)
    neg = False
    for u in range(p):
        for v in range(p):
            i0, j0 = y - m + u, x - m + v
            e = Z(i0, j0) if p % 2 else (Z(i0, j0) + Z(i0, j0 + 1) + Z(i0 + 1, j0) + Z(i0 + 1, j0 + 1)) / 4
            neg = neg or e < 0
            z += e
            xn += Fraction(2 * v - (p - 1), 2) * e
            yn += Fraction(2 * u - (p - 1), 2) * e
    return z, (None if z == 0 else (xn / z, yn / z)), neg


def ring_min(a2, x, y, p):
    """smallest cell among those a p-crop around (x,y) reads PLUS the one-cell ring around them: kornia's bilinear
    sampling positions are off by ~2.4e-7, so the ring leaks into the patch with that weight"""
    h, w = a2.shape
    m = p // 2 + 1
    win = a2[max(0, y - m): min(h, y + m + 1), max(0, x - m): min(w, x + m + 1)]
    return float(win.min()) if win.size else 0.0


def explain_bound_failure(np, a2, x, y, p, obs_off=None, dtype="f32"):
    """EFFECT-based signatures for a refined point that left the p/2 box (known_findings signatures):
    * `zero_sum_patch`  — the true patch sums to exactly 0 and has no negative entry (F-C06z);
    * `negative_patch`  — (F-C06) either the exact estimator on the true patch itself leaves the box (a theorem says this
      needs a negative entry: Props/C06 refine_bounded_partial), or exact cancellation to 0, or the true normaliser is
      within the sampling-leak noise of 0 (|ΣP| < 1e-3·eff_abs_sum, the correspondence's knife-edge criterion) because of
      a negative cell in the patch or in its one-cell ring;
    * nothing           — the negatives (if any) do not explain the displacement: an ordinary violation."""
    if not (0 <= x < a2.shape[1] and 0 <= y < a2.shape[0]):
        return []
    z, off, neg = exact_offsets(a2, x, y, p)
    if off is None:
        return ["negative_patch"] if neg else ["zero_sum_patch"]
    if abs(off[0]) > Fraction(p, 2) or abs(off[1]) > Fraction(p, 2):
        return ["negative_patch"]
    P = patch_of(np, a2[None, None], 0, 0, x, y, p)
    # the exact estimator on the cells that enter the refinement for this p (for even p: four-cell means incl. the zero-padding
    # row/column beyond a border) is beyond (p-1)/2 — the PROVED bound for a non-negative patch (refine_bounded_partial), so a
    # negative entry is responsible (with the negative cells replaced by 0 it would be <= (p-1)/2, half a pixel inside the box)
    # — and the observed point is that estimator up to the correspondence tolerance (here it sits ON the p/2 box edge and
    # float cancellation of +-1e4-sized cells pushes it 0.005 outside)
    if neg and obs_off is not None and (abs(off[0]) > Fraction(p - 1, 2) or abs(off[1]) > Fraction(p - 1, 2)):
        az = eff_abs_sum(np, P, a2, p)
        tol = REFINE_TOL[dtype] * max(1.0, (p + 1) / 2 * az / abs(float(z)))
        if abs(obs_off[0] - float(off[0])) <= tol and abs(obs_off[1] - float(off[1])) <= tol:
            return ["negative_patch"]
    if abs(float(z)) < 1e-3 * eff_abs_sum(np, P, a2, p) and ring_min(a2, x, y, p) < 0:
        return ["negative_patch"]
    return []


def oracle_refine(np, a, rough, refined, p, dtype="f32"):
    """count/order/indices/values preserved; each point within half a patch of its cell.
    Returns (why, signatures) of the first failing peak that no known signature explains, else of the first failing peak."""
    if refined and refined[0] == "raise":
        return f"raised {refined[1:]}", (["patch_size_1"] if is_p1_raise(refined, p) else [])
    if [(q[2], q[3], q[4]) for q in rough] != [(q[2], q[3], q[4]) for q in refined]:
        return "count/order/indices/values changed by refinement", []
    half = p / 2
    first = None
    for k, (g, f) in enumerate(zip(rough, refined)):
        dx, dy = f[0] - g[0], f[1] - g[1]
        if not (abs(dx) <= half + BOUND_SLACK[dtype] and abs(dy) <= half + BOUND_SLACK[dtype]):  # NaN/inf fail too
            sigs = explain_bound_failure(np, a[g[3], g[4]], int(g[0]), int(g[1]), p, (dx, dy), dtype)
            res = (f"peak #{k} at cell ({g[0]},{g[1]}) of map ({g[3]},{g[4]}) moved by ({dx},{dy}), half patch = {half}", sigs)
            if not sigs:
                return res
            first = first or res
    return first or (None, [])


# ------------------------------------------------------------------ one case
def run_case(chk, I, case, mline, where="generated"):
    np = I.np
    cms = I.tensor(case)
    a = I.exact(cms)
    dtype = case.get("dtype", "f32")
    thr, p = case["thr"], patch_size(case)
    model = parse_model(mline)
    small = {**{k: case[k] for k in ("S", "C", "h", "w", "den", "maps", "thr")}, "p": p, "dtype": dtype}

    rough = I.rough(cms, thr)
    if not (rough and rough[0] == "raise"):
        # modelling assumption: comparisons are exact in the map's own dtype; coordinates are float32 integers
        want_dt = ("float32", TORCH_DTYPE[dtype], "int32", "int32")
        if I.last_dtypes != want_dt:
            chk.disagree("find_local_peaks_rough output dtypes (points float32, values in the map's dtype, indices int32)",
                         {k: small[k] for k in ("S", "C", "h", "w", "thr", "p", "dtype")}, list(I.last_dtypes), list(want_dt))
    m_rough = [(float(x), float(y), v, s, c) for x, y, v, s, c, _ in model]
    nontrivial = len(m_rough) > 0
    has_neg = bool((a < 0).any())
    chk.case((case["S"], case["C"], case["h"], case["w"], thr, p, dtype, a.tobytes()) if nontrivial else None,
             {"shape": [case["S"], case["C"], case["h"], case["w"]], "thr": thr, "p": p, "dtype": dtype,
              "kind": case.get("kind"), "n_peaks": len(m_rough)} if nontrivial and case["h"] * case["w"] < 200 else None,
             tags=[f"shape:{case.get('shape', where)}", f"p:{p}", f"peaks:{min(len(m_rough), 5)}{'+' if len(m_rough) >= 5 else ''}",
                   "neg" if has_neg else "nonneg", f"dtype:{dtype}", f"thr:{thr}", "thr<0" if thr < 0 else "thr>=0",
                   "S>1&C>1" if case["S"] > 1 and case["C"] > 1 else "S=1|C=1"]
             + ([f"kind:{case['kind']}"] if case.get("kind") in ("f64special", "f64special+thr_edge", "big_half", "bigval") else []))
    if rough != m_rough:
        chk.disagree("find_local_peaks_rough == Peaks.localPeaksRough", small, str(rough)[:600], str(m_rough)[:600])
    why = oracle_rough(np, a, thr, rough, dtype)
    if why:
        fail(chk, f"C06 fails on find_local_peaks_rough ({TORCH_DTYPE[dtype]} maps): {why}", small, str(rough)[:600], oracle_rough.sigs)
    if thr < -PAD:
        chk.extra["excluded_region_thr_below_pad"] = chk.extra.get("excluded_region_thr_below_pad", 0) + 1

    none_ref = I.full(cms, thr, None, 5)
    if none_ref != rough:
        chk.disagree("find_local_peaks(refinement=None) == find_local_peaks_rough", small, str(none_ref)[:600], str(rough)[:600])
        why = oracle_rough(np, a, thr, none_ref, dtype)
        if why:
            fail(chk, f"C06 fails on find_local_peaks(refinement=None): {why}", small, str(none_ref)[:600])
    extra_rough_oracles(chk, I, case, cms, a, rough, small, dtype)
    if p == 0 or (rough and rough[0] == "raise"):
        return
    # half-precision maps (finding F-C06half): the correspondence and the oracles below run on the IDENTICAL VALUES passed as
    # float32; the half-precision call itself is then compared with that answer (end of this function)
    half_in = (cms, dtype) if dtype in HALF else None
    if half_in:
        cms, dtype = cms.float(), "f32"
    refined = I.full(cms, thr, "integral", p)
    if is_p1_raise(refined, p):
        # documented behaviour of the pinned tree (finding F-C06p1); the model's value is rough + 0
        fail(chk, "C06: find_local_peaks(integral, integral_patch_size=1) raises inside kornia", small, str(refined),
                 ["patch_size_1"])
        return
    if refined and refined[0] == "raise":
        chk.disagree("find_local_peaks(integral) raises where the model does not", small, str(refined), "ok")
        fail(chk, "C06: find_local_peaks(integral) raised", small, str(refined))
        return
    # correspondence on the refined output
    if [(q[2], q[3], q[4]) for q in refined] != [(v, s, c) for _, _, v, s, c, _ in model]:
        chk.disagree("find_local_peaks(integral) indices/values == Peaks.localPeaks", small, str(refined)[:600], str(model)[:600])
    else:
        for k, (q, m) in enumerate(zip(refined, model)):
            P = patch_of(np, a, m[3], m[4], m[0], m[1], p)
            z, az = float(P.sum()), eff_abs_sum(np, P, a[m[3], m[4]], p)
            if m[5] == "inf" or abs(z) <= 1e-3 * az:
                chk.knife_edges += 1
                chk.tag("knife:patch_sum~0")
                continue
            cond = (p + 1) / 2 * az / abs(z)
            tol = REFINE_TOL[dtype] * max(1.0, cond)
            ex, ey = abs(q[0] - float(m[5][0])), abs(q[1] - float(m[5][1]))
            key = "max_refine_err_over_tol" + ("" if dtype in ("f32", "f64") else "_" + dtype)
            chk.extra[key] = max(chk.extra.get(key, 0.0), max(ex, ey) / tol)
            if dtype in ("f32", "f64"):
                chk.extra["max_refine_abs_err_over_kappa"] = max(chk.extra.get("max_refine_abs_err_over_kappa", 0.0), max(ex, ey) * abs(z) / az)
            if not (ex <= tol and ey <= tol):
                chk.disagree("find_local_peaks(integral) points == Peaks.localPeaks (tol)", {**small, "peak": k},
                             [q[0], q[1]], [float(m[5][0]), float(m[5][1])])
                break
    extra_refined_oracles(chk, I, case, cms, a, refined, small, dtype)
    why, sigs = oracle_refine(np, a, rough, refined, p, dtype)
    if has_neg:
        chk.extra["excluded_region_cases"] = chk.extra.get("excluded_region_cases", 0) + 1
    if why:
        fail(chk, f"C06 fails on find_local_peaks(integral, p={p}): {why}", small, str(refined)[:600], sigs)
    if half_in and p >= 2:
        half_precision_refine(chk, I, "find_local_peaks", I.full(half_in[0], thr, "integral", p), refined,
                              lambda got: half_agrees(np, a, rough, got, refined, p, half_in[1],
                                                      chk.extra.setdefault("half_vs_float32_err_over_tol", {})),
                              lambda got: oracle_refine(np, a, rough, got, p, half_in[1]), small, p)


# On HEAD (327aafb) half-precision maps are cropped in float32; the crop is cast back to the map's dtype and integral_regression
# runs in it (sums accumulate in float32, results are rounded to the dtype), so the OFFSET carries a few units of the dtype's
# relative round-off; the final point = float32 rough + offset is float32.  Tolerance = HALF_REL·kappa·max(|offset|, 0.02):
# measured on HEAD  bf16 <= 0.25·tol, f16 <= 0.02·tol  (evidence: half_vs_float32_err_over_tol); a crop taken in bf16 at x > 256
# (seed C07-r8m1) shifts symmetric bumps by 0.2 .. 1 px with offset ~0, i.e. hundreds of tolerances.
HALF_REL = {"f16": 4 * 2.0 ** -11, "bf16": 4 * 2.0 ** -8}


def half_tol(dtype, off_ref, kappa):
    return HALF_REL[dtype] * max(1.0, kappa) * max(abs(off_ref[0]), abs(off_ref[1]), 0.02)


def half_agrees(np, a, rough, got, ref, p, dtype, stats=None):
    """half-precision answer vs the float32 answer on the same values, peak by peak (the rough cells are known): fields exactly;
    where the true normaliser is not within sampling-leak noise of 0 the half-precision point must be finite and within the
    half-precision tolerance of the float32 point"""
    if [(q[2], q[3], q[4]) for q in got] != [(q[2], q[3], q[4]) for q in ref] or len(got) != len(rough):
        return False
    for g, qa, qb in zip(rough, got, ref):
        P = patch_of(np, a, g[3], g[4], int(g[0]), int(g[1]), p)
        z, az = float(P.sum()), eff_abs_sum(np, P, a[g[3], g[4]], p)
        if abs(z) <= 1e-3 * az:
            continue  # knife-edge: the half-precision sum may round the normaliser to exactly 0
        tol = half_tol(dtype, (qb[0] - g[0], qb[1] - g[1]), az / abs(z))
        for u, v in ((qa[0], qb[0]), (qa[1], qb[1])):
            if stats is not None and u == u and abs(u) != float("inf"):
                stats[dtype] = max(stats.get(dtype, 0.0), abs(u - v) / tol)
            if not (u == u and abs(u) != float("inf") and abs(u - v) <= tol):
                return False
    return True


def finite_like(got, ref):
    """every coordinate that is finite in `ref` is finite in `got` (records (x, y, ...))"""
    def fin(v):
        return v is not None and v == v and abs(v) != float("inf")
    return len(got) == len(ref) and all(fin(u) or not fin(v) for qa, qb in zip(got, ref) for u, v in ((qa[0], qb[0]), (qa[1], qb[1])))


def half_precision_refine(chk, I, fn, got, ref32, agrees, bound_oracle, small, p):
    """Finding F-C06half (fixed in 327aafb: crop_bboxes crops half-precision maps in float32; this is its regression check, the
    signature is no longer suppressed): integral refinement of a float16 / bfloat16 map.  `ref32` is the
    answer of the same function on the identical values passed as float32 (already compared with the model and judged by the
    oracles).  Effect-based signature `half_precision_crop`: the half-precision call raises, returns non-finite points or
    points that differ from `ref32` beyond the half-precision tolerance — i.e. the failure disappears when the same values
    are float32 (kornia's crop_and_resize casts the boxes and solves the perspective transform in the map's dtype)."""
    chk.extra["excluded_region_half_precision_refine"] = chk.extra.get("excluded_region_half_precision_refine", 0) + 1
    bad = (got and got[0] in ("raise", "badshape")) or not agrees(got)
    if bad:
        fail(chk, f"C06/C07: {fn}(integral, p={p}) on a half-precision map differs from its answer on the same values as float32",
             small, {"half": str(got)[:300], "float32": str(ref32)[:300]}, ["half_precision_crop"])
        return
    # (no separate bound test on the half-precision answer: it agrees, within the half-precision tolerance, with the float32
    #  answer that has just been judged by the bound oracle; `bound_oracle` is kept for callers that want it)


def half_refine_probe(chk, torch, fn, name):
    """Recorded, not judged (the verdict comes from half_precision_refine): outcome classes of integral refinement of float16 /
    bfloat16 one-hot maps on the tree under test.  Before 327aafb kornia's crop_and_resize built the perspective transform in the
    map's dtype (`_LinAlgError` for many shapes, NaN for large maps); since the fix every entry should be `ok`."""
    out = {}
    for dt in ("float16", "bfloat16"):
        for (h, w) in ((1, 1), (2, 1), (5, 5), (9, 9), (3, 300), (300, 300)):
            for p in (2, 3, 5):
                cms = torch.zeros(1, 1, h, w)
                cms[0, 0, h // 2, w // 2] = 1
                r = call(fn, cms.to(getattr(torch, dt)), threshold=0.25, refinement="integral", integral_patch_size=p)
                if r[0] == "raise":
                    k = "raise:" + r[1]
                else:
                    pts = r[1][0].flatten().tolist()
                    fin = all(v == v and abs(v) != float("inf") for v in pts)
                    k = "no-peak" if len(pts) < 2 else "ok" if fin and abs(pts[0] - w // 2) < 0.1 and abs(pts[1] - h // 2) < 0.1 else ("nan" if not fin else "off")
                out.setdefault(dt, {}).setdefault(k, 0)
                out[dt][k] += 1
    chk.extra.setdefault("out_of_domain", {})[f"{name}(integral) on half-precision maps"] = out


def same_records(np, a2_of, recA, recB, p, dtype):
    """two implementation outputs for the same peaks: fields exactly, points within the (conditioned) tolerance"""
    if [(q[2], q[3], q[4]) for q in recA] != [(q[2], q[3], q[4]) for q in recB]:
        return False
    def finite(v):
        return v == v and abs(v) != float("inf")

    for qa, qb in zip(recA, recB):
        if qa[0] == qb[0] and qa[1] == qb[1]:
            continue
        if p == 0:
            return False
        if not all(finite(v) for v in (qa[0], qa[1], qb[0], qb[1])):
            # a zero / noise-level normaliser (inf or NaN coordinates): knife-edge, not compared
            continue
        a2 = a2_of(qa)
        g = (round(qa[0]), round(qa[1])) if qa[0] == qa[0] and abs(qa[0]) < 1e6 and qa[1] == qa[1] and abs(qa[1]) < 1e6 else None
        if g is None or not (0 <= g[0] < a2.shape[1] and 0 <= g[1] < a2.shape[0]):
            if not (qa[0] != qa[0] and qb[0] != qb[0]):  # both NaN is fine (knife-edge)
                return False
            continue
        # the rough cell is not available here; bound the conditioning by the worst over the cells within p/2 of the point
        tol = 1e-3 if dtype in HALF else 0.0
        for yy in range(max(0, g[1] - p), min(a2.shape[0], g[1] + p + 1)):
            for xx in range(max(0, g[0] - p), min(a2.shape[1], g[0] + p + 1)):
                P = patch_of(np, a2[None, None], 0, 0, xx, yy, p)
                z, az = float(P.sum()), eff_abs_sum(np, P, a2, p)
                tol = max(tol, float("inf") if abs(z) <= 1e-3 * az else REFINE_TOL[dtype] * max(1.0, (p + 1) / 2 * az / abs(z)))
        if not (abs(qa[0] - qb[0]) <= tol and abs(qa[1] - qb[1]) <= tol):
            return False
    return True


LAYOUTS = ["channels_last", "padded_slice", "channel_stride2", "permuted_CS", "expanded", "hw_transposed"]
JUNK = 9.0  # larger than every generated value: reading outside the view would create/suppress peaks


def memory_layout(torch, cms, name):
    """the same VALUES as `cms` (S,C,h,w) in another memory layout; returns (view, reference) where `reference` is None when the
    values are those of `cms` itself (the answer must equal the contiguous tensor's, hence the model's) or the contiguous
    clone to compare with (layout `expanded`, whose values are S copies of sample 0).
      channels_last   : cms.contiguous(memory_format=torch.channels_last)          (what many networks emit)
      padded_slice    : [..., 1:h+1, 2:w+2] of a larger JUNK-filled buffer         (cropped back from a stride-padded buffer)
      channel_stride2 : [:, ::2] of a buffer with JUNK in the odd channels           (channel subset)
      permuted_CS     : a (C,S,h,w) buffer permuted to (S,C,h,w)                     (sample/channel dims cannot be merged)
      expanded        : sample 0 expanded to S samples with stride 0
      hw_transposed   : a (S,C,w,h) buffer transposed in its last two dims"""
    S, C, h, w = cms.shape
    if name == "channels_last":
        return cms.contiguous(memory_format=torch.channels_last), None
    if name == "padded_slice":
        big = torch.full((S, C, h + 3, w + 5), JUNK, dtype=cms.dtype)
        big[..., 1:h + 1, 2:w + 2] = cms
        return big[..., 1:h + 1, 2:w + 2], None
    if name == "channel_stride2":
        big = torch.full((S, 2 * C, h, w), JUNK, dtype=cms.dtype)
        big[:, ::2] = cms
        return big[:, ::2], None
    if name == "permuted_CS":
        return cms.permute(1, 0, 2, 3).contiguous().permute(1, 0, 2, 3), None
    if name == "expanded":
        v = cms[0:1].expand(S, C, h, w)
        return v, v.contiguous()
    if name == "hw_transposed":
        return cms.transpose(2, 3).contiguous().transpose(2, 3), None
    raise ValueError(name)


def layouts_for(chk, case):
    """two of the six layouts per case (all six over three consecutive cases); a replayed case names its layout"""
    if case.get("layout"):
        return [case["layout"]]
    n = chk.evaluations
    return [LAYOUTS[n % 6], LAYOUTS[(n + 3) % 6]]


def extra_rough_oracles(chk, I, case, cms, a, rough, small, dtype):
    """implementation-level oracles on the rough detector (independent of the model), each on a fraction of the cases:
    every map alone == its records in the batch; the same values in other memory layouts; refinement='<other string>';
    default arguments"""
    np, torch = I.np, I.torch
    S, C, thr = case["S"], case["C"], case["thr"]
    n = chk.evaluations
    if rough and rough[0] in ("raise", "badshape"):
        return
    if S * C > 1 and n % 5 == 0:
        chk.tag("oracle:alone==batch(rough)")
        for s_ in range(S):
            for c_ in range(C):
                alone = I.rough(cms[s_:s_ + 1, c_:c_ + 1], thr)
                want = [(q[0], q[1], q[2], 0, 0) for q in rough if q[3] == s_ and q[4] == c_]
                if alone != want:
                    fail(chk, "C06: the peaks of one map depend on the other maps in the batch (find_local_peaks_rough)",
                             {**small, "map": [s_, c_]}, {"in_batch": str(want)[:300], "alone": str(alone)[:300]})
    # memory layouts: the same values in another layout must give the contiguous tensor's answer
    for name in layouts_for(chk, case):
        v, ref_t = memory_layout(torch, cms, name)
        chk.tag(f"layout:{name}" + ("" if not v.is_contiguous() else "(contiguous for this shape)"))
        for fn_name, got, ref in (
                ("find_local_peaks_rough", I.rough(v, thr), rough if ref_t is None else I.rough(ref_t, thr)),
                ("find_local_peaks(refinement=None)", I.full(v, thr, None, 5), rough if ref_t is None else I.rough(ref_t, thr))):
            if got != ref:
                fail(chk, f"C06: {fn_name} on a `{name}` view of the maps differs from its answer on the contiguous clone",
                     {**small, "layout": name, "strides": list(v.stride())}, {"view": str(got)[:300], "contiguous": str(ref)[:300]})
    if n % 7 == 2:
        chk.tag("oracle:refinement=other-string")
        got = I.full(cms, thr, "local", 5)
        if got != rough:
            chk.disagree("find_local_peaks(refinement='local') == find_local_peaks_rough", small, str(got)[:400], str(rough)[:400])
            why = oracle_rough(np, a, thr, got, dtype)
            if why:
                fail(chk, f"C06 fails on find_local_peaks(refinement='local'): {why}", small, str(got)[:400], oracle_rough.sigs)
    if thr == 0.2 and dtype == "f32":
        chk.tag("oracle:default-arguments")
        r = call(I.pf.find_local_peaks_rough, cms)
        got = ("raise",) + r[1:] if r[0] == "raise" else I.canon(r[1])
        if got != rough:
            chk.disagree("find_local_peaks_rough(cms) == find_local_peaks_rough(cms, threshold=0.2)", small, str(got)[:400], str(rough)[:400])
        r = call(I.pf.find_local_peaks, cms)
        got = ("raise",) + r[1:] if r[0] == "raise" else I.canon(r[1])
        if got != rough:
            chk.disagree("find_local_peaks(cms) == find_local_peaks_rough(cms, threshold=0.2)", small, str(got)[:400], str(rough)[:400])


def extra_refined_oracles(chk, I, case, cms, a, refined, small, dtype):
    """implementation-level oracles on the refined output: every map alone vs in the batch (points too); non-contiguous
    view; default patch size"""
    np = I.np
    S, C, thr, p = case["S"], case["C"], case["thr"], patch_size(case)
    n = chk.evaluations
    if p < 2 or (refined and refined[0] in ("raise", "badshape")):
        return
    if S * C > 1 and n % 5 == 0:
        chk.tag("oracle:alone==batch(refined)")
        for s_ in range(S):
            for c_ in range(C):
                alone = I.full(cms[s_:s_ + 1, c_:c_ + 1], thr, "integral", p)
                want = [(q[0], q[1], q[2], 0, 0) for q in refined if q[3] == s_ and q[4] == c_]
                if (alone and alone[0] == "raise") or not same_records(np, lambda q: a[s_, c_], alone, want, p, dtype):
                    fail(chk, "C06: the refined peaks of one map depend on the other maps in the batch (find_local_peaks, integral)",
                             {**small, "map": [s_, c_]}, {"in_batch": str(want)[:300], "alone": str(alone)[:300]})
    for name in layouts_for(chk, case):
        v, ref_t = memory_layout(I.torch, cms, name)
        got = I.full(v, thr, "integral", p)
        ref, aa = (refined, a) if ref_t is None else (I.full(ref_t, thr, "integral", p), I.exact(ref_t))
        if (got and got[0] == "raise") or (ref and ref[0] == "raise") or not same_records(np, lambda q: aa[q[3], q[4]], got, ref, p, dtype):
            fail(chk, f"C06: find_local_peaks(integral, p={p}) on a `{name}` view of the maps differs from its answer on the contiguous clone",
                 {**small, "layout": name, "strides": list(v.stride())}, {"view": str(got)[:300], "contiguous": str(ref)[:300]})
    if p == 5 and thr == 0.2 and dtype == "f32":
        r = call(I.pf.find_local_peaks, cms, refinement="integral")
        got = ("raise",) + r[1:] if r[0] == "raise" else I.canon(r[1])
        if (got and got[0] == "raise") or not same_records(np, lambda q: a[q[3], q[4]], got, refined, p, dtype):
            chk.disagree("find_local_peaks(cms, refinement='integral') == (threshold=0.2, integral_patch_size=5)", small, str(got)[:400], str(refined)[:400])


def witness_case(w):
    h, wd = w["h"], w["w"]
    m = [[float(w.get("fill", 0.0))] * wd for _ in range(h)]
    for (x, y, v) in w["cells"]:
        m[y][x] = v
    return {"S": 1, "C": 1, "h": h, "w": wd, "den": 1, "maps": [m], "thr": w["thr"], "p": w.get("patch", 0),
            "dtype": w.get("dtype", "f32"), "kind": "witness", "shape": "witness"}


def main(chk: Check):
    chk.build_and_audit()
    import_repo()
    I = Impl()
    np, torch = I.np, I.torch
    rng = chk.rng
    torch.manual_seed(rng.randrange(2 ** 31))

    # ---- known finding replays (F-C06 negative patch, F-C06z zero-sum patch)
    for ent in chk.known:
        case = witness_case(ent["witness"])
        cms = I.tensor(case)
        if ent["signature"] in ("peak_below_pad_constant", "value_absorbs_pad_constant"):
            got = I.rough(cms, case["thr"])
            why = oracle_rough(np, I.exact(cms), case["thr"], got, case["dtype"])
            if ent["signature"] == "peak_below_pad_constant":  # inside the model: it pads with -1e4 as the code does
                m = parse_model(run_driver("C06.lean", [model_line(case, cms)])[0])
                if got != [(float(x), float(y), v, s_, c_) for x, y, v, s_, c_, _ in m]:
                    chk.disagree(f"{ent['id']} witness: implementation == model", ent["witness"], str(got), str(m))
            chk.known_replay(ent["id"], still_fails=bool(why) and ent["signature"] in oracle_rough.sigs, detail=f"impl={got} {why}")
            continue
        if ent["signature"] == "half_precision_crop":
            p_ = case["p"]
            ref32 = I.full(cms.float(), case["thr"], "integral", p_)
            got = I.full(cms, case["thr"], "integral", p_)
            m = parse_model(run_driver("C06.lean", [model_line(case, cms)])[0])
            if not (ref32 and ref32[0] != "raise" and len(ref32) == len(m) and all(
                    mm[5] not in (None, "inf") and abs(q[0] - float(mm[5][0])) < 1e-3 for q, mm in zip(ref32, m))):
                chk.disagree(f"{ent['id']} witness: float32 answer == model", ent["witness"], str(ref32), str(m))
            a_w = I.exact(cms)
            still = (got and got[0] == "raise") or not half_agrees(np, a_w, I.rough(cms, case["thr"]), got, ref32, p_, case["dtype"])
            det = f"half={got} float32={ref32}"
            if ent.get("witness_bf16"):
                c2 = witness_case(ent["witness_bf16"])
                t2 = I.tensor(c2)
                r2, g2 = I.full(t2.float(), c2["thr"], "integral", c2["p"]), I.full(t2, c2["thr"], "integral", c2["p"])
                still = still or (g2 and g2[0] == "raise") or not half_agrees(np, I.exact(t2), I.rough(t2, c2["thr"]), g2, r2, c2["p"], c2["dtype"])
                det += f"; bf16 witness half={g2} float32={r2}"
            chk.known_replay(ent["id"], still_fails=bool(still), detail=det)
            continue
        got = I.full(cms, case["thr"], "integral", ent["witness"]["patch"])
        rough = I.rough(cms, case["thr"])
        why, sigs = oracle_refine(np, I.exact(cms), rough, got, case["p"])
        m = parse_model(run_driver("C06.lean", [model_line(case, cms)])[0])
        if ent["signature"] == "patch_size_1":
            agrees = len(m) == 1 and (is_p1_raise(got, 1) or (len(got) == 1 and m[0][5] not in (None, "inf")
                                                               and abs(got[0][0] - float(m[0][5][0])) < 1e-3))
        elif ent["signature"] == "negative_patch":
            agrees = (len(got) == len(m) == 1 and m[0][5] not in (None, "inf")
                      and abs(got[0][0] - float(m[0][5][0])) < 1e-3)
        else:
            agrees = len(got) == len(m) == 1 and m[0][5] == "inf"
        if not agrees:
            chk.disagree(f"{ent['id']} witness: implementation == model", ent["witness"], str(got), str(m))
        chk.known_replay(ent["id"], still_fails=bool(why) and ent["signature"] in sigs, detail=f"impl={got} model={m}")

    # ---- corpus
    cases = []
    import json
    from common import CORPUS
    for f in sorted((CORPUS / "C06").glob("*.json")) if (CORPUS / "C06").exists() else []:
        c = json.loads(f.read_text())
        c.setdefault("kind", "corpus"), c.setdefault("shape", "corpus")
        cases.append(c)
    # fixed regression cases: suite example, plateau, corner peaks, 1x1
    cases.append({"S": 1, "C": 1, "h": 5, "w": 5, "den": 8, "thr": 0.2, "p": 5, "kind": "fixed", "shape": "fixed",
                  "maps": [[[0, 0, 0, 0, 0], [0, 8, 4, 0, 0], [0, 4, 0, 0, 0], [0, 0, 0, 6, 6], [0, 0, 0, 6, 7]]]})
    cases.append({"S": 1, "C": 2, "h": 1, "w": 1, "den": 8, "thr": 0.0, "p": 3, "kind": "fixed", "shape": "1x1",
                  "maps": [[[3]], [[0]]]})
    cases.append({"S": 2, "C": 1, "h": 3, "w": 3, "den": 8, "thr": 0.125, "p": 3, "kind": "fixed", "shape": "fixed",
                  "maps": [[[8, 0, 8], [0, 0, 0], [8, 0, 8]], [[8, 8, 0], [0, 0, 0], [0, 0, 1]]]})
    # float64 near-ties below float32 resolution (seed C06-r3m3's two patterns) and a broad float64 bump
    cases.append({"S": 1, "C": 1, "h": 3, "w": 4, "den": 1, "thr": 0.25, "p": 0, "dtype": "f64", "kind": "f64special", "shape": "fixed",
                  "maps": [[[0.0, 0.0, 0.0, 0.0], [0.0, 0.5 + 1e-10, 0.5 + 2e-10, 0.0], [0.0, 0.0, 0.0, 0.0]]]})
    cases.append({"S": 1, "C": 1, "h": 5, "w": 5, "den": 1, "thr": 0.5, "p": 3, "dtype": "f64", "kind": "f64special", "shape": "fixed",
                  "maps": [[[math.exp(-((i - 2) ** 2 + (j - 2) ** 2) / (2 * 1e4 ** 2)) for j in range(5)] for i in range(5)]]})
    cases.append({"S": 1, "C": 2, "h": 3, "w": 3, "den": 1, "thr": 0.5, "p": 0, "dtype": "f64", "kind": "f64special+thr_edge", "shape": "fixed",
                  "maps": [[[0.0, 0.0, 0.0], [0.0, 0.5 - 1e-10, 0.0], [0.0, 0.0, 0.0]], [[0.0, 0.0, 0.0], [0.0, 0.5 + 1e-10, 0.0], [0.0, 0.0, 0.0]]]})
    for _ in range(chk.n(2, 12)):
        cases.append(big_half_case(rng))
    for _ in range(chk.n(1000, 8000)):
        cases.append(gen_case(rng))

    half_refine_probe(chk, torch, I.pf.find_local_peaks, "find_local_peaks")
    lines = [model_line(c, I.tensor(c)) for c in cases]
    out = run_driver("C06.lean", lines)
    for c, m in zip(cases, out):
        run_case(chk, I, c, m)

    # ---- EXCLUDED REGION (oracle only, no model line: the field model has no rounding): values so large that `v - 1e4`
    #      rounds back to `v` in the map's dtype (float32 >= 2^38, float64 >= 2^67, +inf) — finding F-C06huge
    for _ in range(chk.n(25, 250)):
        dtype = rng.choice(["f32", "f32", "f64"])
        h, w = rng.randrange(1, 6), rng.randrange(1, 6)
        m = [[float(rng.randrange(0, 9)) / 8 for _ in range(w)] for _ in range(h)]
        big = rng.choice([2.0 ** 38, 3e11, 1e12, 2.0 ** 40, float("inf"), 1e11, 2.0 ** 37] if dtype == "f32"
                         else [2.0 ** 67, 1e21, float("inf"), 2.0 ** 66, 1e12])
        for _k in range(rng.randrange(1, 3)):
            m[rng.randrange(h)][rng.randrange(w)] = big
        case = {"S": 1, "C": 1, "h": h, "w": w, "den": 1, "maps": [m], "thr": 0.125, "p": 0, "dtype": dtype,
                "kind": "huge", "shape": "huge"}
        cms = I.tensor(case)
        got = I.rough(cms, 0.125)
        chk.case(("huge", dtype, h, w, str(m)), None, tags=["kind:huge", f"dtype:{dtype}"])
        chk.extra["excluded_region_huge_values"] = chk.extra.get("excluded_region_huge_values", 0) + 1
        with np.errstate(all="ignore"):
            why = oracle_rough(np, I.exact(cms), 0.125, got, dtype)
        if why:
            fail(chk, f"C06 fails on find_local_peaks_rough ({TORCH_DTYPE[dtype]} map with a value of {big}): {why}",
                     {k: case[k] for k in ("S", "C", "h", "w", "den", "maps", "thr", "p", "dtype")}, str(got)[:300], oracle_rough.sigs)
    # ---- ORACLE-ONLY family (the Lean model covers finite values): maps with -inf cells (masked / dead regions: a block, isolated
    #      cells next to a peak, a border ring) and, separately, one +inf cell; float32 / float64; refinement None (patches
    #      containing +-inf are out of domain for the integral refinement).  Reference = brute-force strict-local-maximum scan
    #      with ordinary float comparisons (-inf is simply smaller than everything, +inf larger).
    ninf = float("-inf")
    for _ in range(chk.n(40, 300)):
        dtype = rng.choice(["f32", "f64"])
        S, C = rng.randrange(1, 3), rng.randrange(1, 3)
        h, w = rng.randrange(1, 8), rng.randrange(1, 8)
        maps = [[[float(rng.randrange(0, 9)) / 8 for _ in range(w)] for _ in range(h)] for _ in range(S * C)]
        kind = rng.choice(["block", "isolated", "ring", "plus_inf", "all_ninf", "very_negative"])
        for m in maps:
            if kind == "block":
                i0, j0 = rng.randrange(h), rng.randrange(w)
                for i in range(i0, min(h, i0 + rng.randrange(1, 4))):
                    for j in range(j0, min(w, j0 + rng.randrange(1, 4))):
                        m[i][j] = ninf
            elif kind == "isolated":
                for _k in range(rng.randrange(1, 4)):
                    i, j = rng.randrange(h), rng.randrange(w)
                    m[i][j] = 1.0 + _k / 8  # a peak ...
                    di, dj = rng.choice([(0, 1), (1, 0), (1, 1), (0, -1), (-1, 0), (-1, 1)])
                    if 0 <= i + di < h and 0 <= j + dj < w:
                        m[i + di][j + dj] = ninf  # ... with a masked cell right next to it
            elif kind == "ring":
                for i in range(h):
                    for j in range(w):
                        if i in (0, h - 1) or j in (0, w - 1):
                            m[i][j] = ninf
            elif kind == "plus_inf":
                m[rng.randrange(h)][rng.randrange(w)] = float("inf")
        if kind in ("all_ninf", "very_negative"):
            # one whole channel is -inf (resp. -3e38): below every threshold => the global detector must report NaN coordinates
            # and value 0 for it; no local peak
            k0 = rng.randrange(S * C)
            maps[k0] = [[ninf if kind == "all_ninf" else -3e38 for _ in range(w)] for _ in range(h)]
        case = {"S": S, "C": C, "h": h, "w": w, "den": 1, "maps": maps, "thr": rng.choice([0.125, 0.5, -0.25]), "p": 0,
                "dtype": dtype, "kind": "inf:" + kind, "shape": "inf"}
        cms = I.tensor(case)
        a_inf = I.exact(cms)
        small_inf = {k: case[k] for k in ("S", "C", "h", "w", "den", "maps", "thr", "p", "dtype")}
        chk.case(("inf", kind, dtype, S, C, h, w, str(maps)), None, tags=["kind:inf:" + kind, f"dtype:{dtype}"])
        chk.extra["oracle_only_inf_cases"] = chk.extra.get("oracle_only_inf_cases", 0) + 1
        for fn_name, got in (("find_local_peaks_rough", I.rough(cms, case["thr"])),
                             ("find_local_peaks(refinement=None)", I.full(cms, case["thr"], None, 5))):
            with np.errstate(all="ignore"):
                why = oracle_rough(np, a_inf, case["thr"], got, dtype)
            if why:
                fail(chk, f"C06 fails on {fn_name} ({TORCH_DTYPE[dtype]} map with {'-inf' if kind != 'plus_inf' else '+inf'} cells, {kind}): {why}",
                     small_inf, str(got)[:300], oracle_rough.sigs)
        # the global detector on the same maps: the reported cell holds the maximum, the value is the maximum
        r = call(I.pf.find_global_peaks_rough, cms.clone(), threshold=case["thr"])
        if r[0] == "raise":
            fail(chk, "C06/C07: find_global_peaks_rough raised on a map with infinite cells", small_inf, str(r))
        else:
            pts, vals = r[1]
            for k in range(S * C):
                s_, c_ = divmod(k, C)
                mx = a_inf[s_, c_].max()
                x, y, v = float(pts[s_, c_, 0]), float(pts[s_, c_, 1]), float(vals[s_, c_])
                if mx < case["thr"]:
                    ok = x != x and y != y and v == 0.0
                else:
                    ok = x == x and y == y and 0 <= int(y) < h and 0 <= int(x) < w and a_inf[s_, c_, int(y), int(x)] == mx and v == float(mx)
                if not ok:
                    fail(chk, f"C06/C07: find_global_peaks_rough on a map with infinite cells ({kind}): channel ({s_},{c_}) max {float(mx)} "
                              f"reported ({x}, {y}, {v})", small_inf, [x, y, v])
    # NaN cells: outside the property's domain (comparisons with NaN are false both ways); outcome recorded, not judged
    nan_map = torch.tensor([[0.0, 0.0, 0.0], [0.0, 1.0, float("nan")], [0.0, 0.0, 0.0]]).reshape(1, 1, 3, 3)
    chk.extra.setdefault("out_of_domain", {})["find_local_peaks_rough on a 3x3 map, centre 1.0 next to a NaN cell"] = str(I.rough(nan_map, 0.2))

    # ---- integral_regression alone (square p x p patch → offsets)
    n_off = chk.n(300, 3000)
    pats, plines = [], []
    for _ in range(n_off):
        p = rng.choice([2, 3, 4, 5, 6, 7, 8])
        neg = rng.random() < 0.3
        ints = [rng.randrange(-8 if neg else 0, 9) for _ in range(p * p)]
        if rng.random() < 0.3:
            ints = [v if rng.random() < 0.3 else 0 for v in ints]
        pats.append((p, ints))
        plines.append(f"offsets {p} " + lst([rat(Fraction(v, 8)) for v in ints]))
    pout = run_driver("C06.lean", plines)
    for (p, ints), m in zip(pats, pout):
        t = (torch.tensor(ints, dtype=torch.float32) / 8).reshape(1, 1, p, p)
        gv = torch.arange(p, dtype=torch.float32) - ((p - 1) / 2)
        dx, dy = I.pf.integral_regression(t, xv=gv, yv=gv)
        dx, dy = float(dx), float(dy)
        z, az = sum(ints) / 8, sum(abs(v) for v in ints) / 8
        chk.case(("offsets", p, tuple(ints)) if az > 0 else None, None, tags=["op:offsets"])
        if m == "inf inf" or abs(z) <= 1e-3 * az:
            chk.knife_edges += 1
            continue
        mx, my = (float(Fraction(s)) for s in m.split())
        tol = 5e-5 * max(1.0, (p + 1) / 2 * az / abs(z))
        if not (abs(dx - mx) <= tol and abs(dy - my) <= tol):
            chk.disagree("integral_regression == Peaks.integralOffsets", {"p": p, "patch_x8": ints}, [dx, dy], [mx, my])
            if min(ints) >= 0 and not (abs(dx) <= p / 2 and abs(dy) <= p / 2):
                fail(chk, "C06: integral_regression offset exceeds half a patch on a non-negative patch",
                         {"p": p, "patch_x8": ints}, [dx, dy])


def replay(chk: Check, payload):
    import_repo()
    I = Impl()
    case = payload.get("case") or payload["disagreements"][0]["case"]
    if "maps" not in case:
        print("replay: case is not a map case:", case)
        return
    case.setdefault("kind", "replay"), case.setdefault("shape", "replay")
    if any(abs(v) == float("inf") for mp in case["maps"] for row in mp for v in row):
        # oracle-only family (the Lean model covers finite values)
        cms = I.tensor(case)
        dt = case.get("dtype", "f32")
        for fn_name, got in (("find_local_peaks_rough", I.rough(cms, case["thr"])), ("find_local_peaks(refinement=None)", I.full(cms, case["thr"], None, 5))):
            with I.np.errstate(all="ignore"):
                why = oracle_rough(I.np, I.exact(cms), case["thr"], got, dt)
            print(f"replay (oracle only, infinite cells) {fn_name}: {why}")
            chk.case(("inf-replay", fn_name))
            if why:
                fail(chk, f"C06 fails on {fn_name} (map with infinite cells): {why}", case, str(got)[:300], oracle_rough.sigs)
        return
    m = run_driver("C06.lean", [model_line(case, I.tensor(case))])[0]
    print(f"replay case={ {k: case[k] for k in ('S', 'C', 'h', 'w', 'thr')} } p={patch_size(case)} model={m[:300]}")
    run_case(chk, I, case, m, where="replay")


if __name__ == "__main__":
    chk = Check(
        "C06", module="SleapVerif.Props.C06", theorems=THEOREMS,
        build_targets=["SleapVerif.Model.Peaks", "SleapVerif.Model.Proto"],
        trusted=[
            "Lean 4.33 kernel; axioms ⊆ {propext, Classical.choice, Quot.sound} (audited per run)",
            "hand-written model Peaks.lean of find_local_peaks_rough / find_local_peaks / integral_regression; tied to "
            "/repo by exact comparison (sets, order, indices, values) and 5e-5·cond comparison (refined points) on the explored maps only",
            "kornia dilation (geodesic border, max_val=1e4) and crop_and_resize (align_corners sampling at c-(p-1)/2+k: cells for odd p, "
            "bilinear mean of four cells for even p; zero padding): modelled, validated by the correspondence",
            "float32 comparisons on dyadic map values (k/8, k/16, |v| ≤ 1) coincide with comparisons of the rationals they denote",
        ],
        rule="S,C in 1..3, maps 1x1 / 1xN / Nx1 / up to 10x10 on the 1/8 or 1/16 lattice (few-level random fields = many ties, plateaus, "
             "sparse border/corner peaks, quantised Gaussian bumps, each with and without negative values; duplicate maps across slots), "
             "7 thresholds incl. negative and -1e4, integral_patch_size 1..8 (odd and even) or none; 4 % maps of 11..24 cells per side, 5 % batches up to 5x5 maps, 6 % of float32/float64 cases with values around +-1e4 and thresholds down to -20000; distinct = distinct (shape, thr, patch, map bytes) with >= 1 peak; "
             "trivial = no peak; plus raw patches through integral_regression; MEMORY LAYOUTS: every case is also run (two layouts "
             "per case, all six over three cases) as channels_last, a slice of a larger JUNK-padded buffer in H and W, an every-other-channel "
             "view, a (C,S,h,w)-permuted view, a stride-0 expanded batch and an H/W-transposed view — the answers of all public functions "
             "must equal the contiguous clone's (values, not layouts, are what the model sees: nothing changes on the Lean side)",
        assumptions=[
            "finite maps; threshold >= -1e4 (kornia's border constant); integral_patch_size 1..8: odd p reads cells, even p reads "
            "means of four cells (half-integer sampling), both modelled; p = 1 raises inside kornia (F-C06p1) where the model gives offset 0",
            "infinite cells: ORACLE-ONLY family (40 quick / 300 thorough maps with -inf blocks, isolated -inf cells next to a peak, a -inf "
            "border ring, or one +inf cell; float32/float64; refinement None; brute-force reference with float comparisons) — the Lean "
            "model covers finite values; a +inf peak is dropped by the code (F-C06huge); integral refinement on patches containing +-inf "
            "is out of domain",
            "value range: the field model has no rounding. Inside the domain: finite values with |v| < 2^38 (float32) / 2^67 (float64) "
            "and thr >= -1e4. Sampled as EXCLUDED REGIONS with the oracle every run: thr < -1e4 with values around -1e4 (model still "
            "compared: it pads with -1e4 like the code; failures = F-C06pad) and values whose v-1e4 rounds to v incl. +inf (oracle only; "
            "failures = F-C06huge). NaN cells are outside the property (outcome recorded in out_of_domain). Empty dimensions are not "
            "generated: S=0 returns empty, C=0/h=0/w=0 raise RuntimeError in reshape (observed by the auditor), the model returns []",
            "dtypes: maps in float64 / float32 / float16 / bfloat16; the model is dtype-agnostic (runs on the exact values): "
            "comparisons are exact in the map's own dtype, coordinates are float32 integers, values keep the map's dtype — "
            "checked exactly for the rough detector in all four dtypes; thresholds are dyadic except 0.2 with float32 maps",
            "half-precision maps + integral refinement: since 327aafb crop_bboxes crops float16/bfloat16 maps in float32 (finding F-C06half, "
            "FIXED; pre-fix behaviour = regression record, witness replayed every run). ~60 % of the half-precision cases keep their patch "
            "size: correspondence and oracles run on the identical values as float32, then the half-precision call must agree with that "
            "answer peak by peak (half-precision tolerance; knife-edges skipped); a raise / NaN / discrepancy is a violation",
            "flat-index arithmetic: find_local_peaks_rough takes its subscripts from torch.where (int64 per-dimension indices), there is no "
            "flat index to unravel, so the > 2^24-cell family lives in C07 only",
            "refinement bound is proved for non-negative patches with positive sum only (F-C06); negative patches are sampled "
            "every run with the property oracle (excluded_region_cases) — search, not proof",
        ],
    )
    run_check(chk, main, replay)
