"""C06 — multi-peak detection returns exactly the strict local maxima above threshold;
integral refinement preserves count/order/indices and moves at most half a patch.

Model: lean/SleapVerif/Model/Peaks.lean; theorems: lean/SleapVerif/Props/C06.lean.
Correspondence: `find_local_peaks_rough`, `find_local_peaks(refinement in {None,"integral"})`,
`integral_regression` (real code, real kornia dilation / crop_and_resize) vs the Lean driver
(run at Rat on the exact dyadic values the float32 maps denote).

Comparison: peak sets, order, (x,y), sample, channel, values: exact.  Refined points: kornia's
crop goes through a float32 perspective solve + bilinear sampling (patch entries off by up to
2.4e-7) and the points are float32 numbers up to ~10; observed |impl - model| reaches
1e-5·kappa, kappa = Σ|P|/|ΣP| (1 for a non-negative patch), so a flat 1e-5 would raise false
alarms.  Tolerance: `5e-5 * max(1, cond)`, `cond = ((p+1)/2)·kappa` (>= 10x the observed noise,
<= 1/100 of the effect of any mutation tried); patches with |ΣP| < 1e-3·Σ|P| are knife-edges
(the code divides by ~0), counted and skipped.
"""
import math
from fractions import Fraction

from common import Check, call, import_repo, lst, rat, run_check, run_driver, unrat

THEOREMS = [
    "SleapVerif.C06.local_peaks_iff",
    "SleapVerif.C06.local_peaks_sorted",
    "SleapVerif.C06.local_peaks_nodup",
    "SleapVerif.C06.local_peaks_batch_independent",
    "SleapVerif.C06.refine_preserves",
    "SleapVerif.C06.refine_crop_index",
    "SleapVerif.C06.refine_bounded_partial",
    "SleapVerif.C06.refine_bounded_of_nonneg_map",
    "SleapVerif.C06.refine_unbounded_counterexample",
]

BIG = 10000


# ------------------------------------------------------------------ generators (ints = value * den)
def gen_map(rng, h, w, kind, den):
    lo, hi = (-den, den) if kind.endswith("neg") else (0, den)
    base = kind.replace("_neg", "")
    if base == "field":
        levels = rng.choice([2, 3, 5, 2 * den + 1])
        vals = sorted(rng.sample(range(lo, hi + 1), min(levels, hi - lo + 1)))
        return [[rng.choice(vals) for _ in range(w)] for _ in range(h)]
    if base == "plateau":
        m = [[rng.randrange(lo, max(lo + 1, hi // 2)) for _ in range(w)] for _ in range(h)]
        for _ in range(rng.randrange(1, 4)):
            i0, j0 = rng.randrange(h), rng.randrange(w)
            for i in range(i0, min(h, i0 + rng.randrange(1, 4))):
                for j in range(j0, min(w, j0 + rng.randrange(1, 4))):
                    m[i][j] = hi
        return m
    if base == "sparse":
        bg = rng.choice([0, lo])
        m = [[bg for _ in range(w)] for _ in range(h)]
        for _ in range(rng.randrange(1, 6)):
            i, j = rng.choice([0, h - 1, rng.randrange(h)]), rng.choice([0, w - 1, rng.randrange(w)])
            m[i][j] = rng.randrange(1, hi + 1)
            if kind.endswith("neg") and rng.random() < 0.7:
                di, dj = rng.choice([(0, 1), (0, -1), (1, 0), (-1, 0), (1, 1), (2, 0), (0, 2)])
                if 0 <= i + di < h and 0 <= j + dj < w:
                    m[i + di][j + dj] = -rng.randrange(1, hi + 1)
        return m
    if base == "bumps":
        m = [[0 for _ in range(w)] for _ in range(h)]
        for _ in range(rng.randrange(1, 4)):
            cy, cx, s = rng.uniform(-0.5, h - 0.5), rng.uniform(-0.5, w - 0.5), rng.choice([0.7, 1.0, 1.5, 2.5])
            for i in range(h):
                for j in range(w):
                    m[i][j] = max(m[i][j], round(den * math.exp(-((i - cy) ** 2 + (j - cx) ** 2) / (2 * s * s))))
        if kind.endswith("neg"):
            for _ in range(rng.randrange(1, 4)):
                m[rng.randrange(h)][rng.randrange(w)] = -rng.randrange(1, den + 1)
        return m
    raise ValueError(kind)


KINDS = ["field", "field_neg", "plateau", "plateau_neg", "sparse", "sparse_neg", "bumps", "bumps_neg"]
THRS = [(0.2, Fraction(1, 5)), (0.0, Fraction(0)), (0.125, Fraction(1, 8)), (0.5, Fraction(1, 2)),
        (-0.25, Fraction(-1, 4)), (-float(BIG), Fraction(-BIG)), (0.75, Fraction(3, 4))]


def gen_case(rng):
    shape = rng.choice(["1x1", "1xN", "Nx1", "small", "small", "mid", "mid", "mid"])
    if shape == "1x1":
        h, w = 1, 1
    elif shape == "1xN":
        h, w = 1, rng.randrange(2, 9)
    elif shape == "Nx1":
        h, w = rng.randrange(2, 9), 1
    elif shape == "small":
        h, w = rng.randrange(2, 5), rng.randrange(2, 5)
    else:
        h, w = rng.randrange(4, 11), rng.randrange(4, 11)
    S, C = rng.randrange(1, 4), rng.randrange(1, 4)
    den = rng.choice([8, 8, 16])
    kinds = [rng.choice(KINDS) for _ in range(S * C)] if rng.random() < 0.5 else [rng.choice(KINDS)] * (S * C)
    maps = [gen_map(rng, h, w, k, den) for k in kinds]
    if S * C > 1 and rng.random() < 0.25:  # identical maps in different slots: index mix-ups stay visible
        maps[rng.randrange(S * C)] = [row[:] for row in maps[0]]
    thr = rng.choice(THRS)
    p = rng.choice([0, 1, 2, 3, 3, 4, 5, 5, 6, 7, 8])  # integral_patch_size; 0 = refinement None
    return {"S": S, "C": C, "h": h, "w": w, "den": den, "maps": maps, "thr": thr[0], "p": p,
            "kind": "+".join(sorted(set(kinds))), "shape": shape}


def thr_rat(t):
    for f, q in THRS:
        if f == t:
            return q
    return Fraction(t)


# ------------------------------------------------------------------ implementation side
class Impl:
    def __init__(self):
        import numpy as np
        import torch
        from sleap_nn.inference import peak_finding as pf

        self.np, self.torch, self.pf = np, torch, pf

    def tensor(self, case):
        t = self.torch.tensor(case["maps"], dtype=self.torch.float32) / case["den"]
        return t.reshape(case["S"], case["C"], case["h"], case["w"])

    @staticmethod
    def canon(res):
        pts, vals, si, ci = res
        assert str(si.dtype) == "torch.int32" and str(ci.dtype) == "torch.int32", (si.dtype, ci.dtype)
        assert pts.shape == (vals.shape[0], 2) and si.shape == vals.shape == ci.shape
        return [(float(p[0]), float(p[1]), Fraction(float(v)), int(s), int(c))
                for p, v, s, c in zip(pts.tolist(), vals.tolist(), si.tolist(), ci.tolist())]

    def rough(self, cms, thr):
        r = call(self.pf.find_local_peaks_rough, cms, threshold=thr)
        return ("raise",) + r[1:] if r[0] == "raise" else self.canon(r[1])

    def full(self, cms, thr, refinement, p):
        r = call(self.pf.find_local_peaks, cms, threshold=thr, refinement=refinement, integral_patch_size=p)
        return ("raise",) + r[1:] if r[0] == "raise" else self.canon(r[1])


def patch_size(case):
    """integral_patch_size of a case (0 = no refinement); older replay/corpus files carry r = (p-1)/2"""
    if "p" in case:
        return case["p"]
    return 2 * case["r"] + 1 if case.get("r") else 0


def model_line(case, cms):
    flat = [rat(float(x)) for x in cms.flatten().tolist()]
    return (f"local {rat(thr_rat(case['thr']))} {patch_size(case)} {case['S']} {case['C']} {case['h']} {case['w']} "
            + lst(flat))


def parse_model(line):
    t = line.split()
    n = int(t[0])
    out = []
    for k in range(n):
        x, y, v, s, c, px, py = t[1 + 7 * k: 8 + 7 * k]
        pt = None if px == "nan" else ("inf" if px == "inf" else (Fraction(px), Fraction(py)))
        out.append((int(x), int(y), Fraction(v), int(s), int(c), pt))
    assert len(t) == 1 + 7 * n, line[:200]
    return out


# ------------------------------------------------------------------ oracle (independent of the model)
def brute_peaks(np, a, thr32):
    """strict 8-neighbour local maxima above thr, in (sample,row,col,channel) order"""
    S, C, h, w = a.shape
    out = []
    for s in range(S):
        for i in range(h):
            for j in range(w):
                for c in range(C):
                    v = a[s, c, i, j]
                    if not v > thr32:
                        continue
                    ok = True
                    for di in (-1, 0, 1):
                        for dj in (-1, 0, 1):
                            ii, jj = i + di, j + dj
                            if (di or dj) and 0 <= ii < h and 0 <= jj < w and not v > a[s, c, ii, jj]:
                                ok = False
                    if ok:
                        out.append((float(j), float(i), Fraction(float(v)), s, c))
    return out


def patch_of(np, a, s, c, x, y, p):
    """what crop_and_resize samples for a p x p box centred on cell (x,y) (zeros outside the map):
    the cells for odd p, the mean of the four surrounding cells (half-integer positions) for even p"""
    S, C, h, w = a.shape

    def Z(ii, jj):
        return float(a[s, c, ii, jj]) if 0 <= ii < h and 0 <= jj < w else 0.0

    P = np.zeros((p, p), dtype=np.float64)
    m = p // 2
    for u in range(p):
        for v in range(p):
            i0, j0 = y - m + u, x - m + v
            P[u, v] = Z(i0, j0) if p % 2 else (Z(i0, j0) + Z(i0, j0 + 1) + Z(i0 + 1, j0) + Z(i0 + 1, j0 + 1)) / 4
    return P


def is_p1_raise(res, p):
    """integral_patch_size = 1: kornia's perspective solve of the degenerate box is singular (F-C06p1)"""
    return p == 1 and bool(res) and res[0] == "raise" and res[1] == "_LinAlgError"


def oracle_rough(np, a, thr, got):
    if got and got[0] == "raise":
        return f"raised {got[1:]}"
    want = brute_peaks(np, a, np.float32(thr))
    if got != want:
        missing = [p for p in want if p not in got]
        extra = [p for p in got if p not in want]
        return f"missing={missing[:3]} extra={extra[:3]} order_only={not missing and not extra}"
    return None


def patch_signatures(P):
    """structural predicates of a refinement patch (matched against known_findings signatures)"""
    if (P < 0).any():
        return ["negative_patch"]
    if float(P.sum()) == 0.0:
        return ["zero_sum_patch"]
    return []


def oracle_refine(np, a, rough, refined, p):
    """count/order/indices/values preserved; each point within half a patch of its cell"""
    if refined and refined[0] == "raise":
        return f"raised {refined[1:]}", (["patch_size_1"] if is_p1_raise(refined, p) else [])
    if [(q[2], q[3], q[4]) for q in rough] != [(q[2], q[3], q[4]) for q in refined]:
        return "count/order/indices/values changed by refinement", []
    half = p / 2
    for k, (g, f) in enumerate(zip(rough, refined)):
        dx, dy = f[0] - g[0], f[1] - g[1]
        if not (abs(dx) <= half + 1e-4 and abs(dy) <= half + 1e-4):  # NaN/inf fail too
            P = patch_of(np, a, g[3], g[4], int(g[0]), int(g[1]), p)
            sigs = patch_signatures(P)
            return f"peak #{k} at cell ({g[0]},{g[1]}) moved by ({dx},{dy}), half patch = {half}", sigs
    return None, []


# ------------------------------------------------------------------ one case
def run_case(chk, I, case, mline, where="generated"):
    np = I.np
    cms = I.tensor(case)
    a = cms.numpy()
    thr, p = case["thr"], patch_size(case)
    model = parse_model(mline)
    small = {**{k: case[k] for k in ("S", "C", "h", "w", "den", "maps", "thr")}, "p": p}

    rough = I.rough(cms, thr)
    m_rough = [(float(x), float(y), v, s, c) for x, y, v, s, c, _ in model]
    nontrivial = len(m_rough) > 0
    has_neg = bool((a < 0).any())
    chk.case((case["S"], case["C"], case["h"], case["w"], thr, p, cms.numpy().tobytes()) if nontrivial else None,
             {"shape": [case["S"], case["C"], case["h"], case["w"]], "thr": thr, "p": p, "kind": case.get("kind"),
              "n_peaks": len(m_rough)} if nontrivial else None,
             tags=[f"shape:{case.get('shape', where)}", f"p:{p}", f"peaks:{min(len(m_rough), 5)}{'+' if len(m_rough) >= 5 else ''}",
                   "neg" if has_neg else "nonneg"])
    if rough != m_rough:
        chk.disagree("find_local_peaks_rough == Peaks.localPeaksRough", small, str(rough)[:600], str(m_rough)[:600])
    why = oracle_rough(np, a, thr, rough)
    if why:
        chk.fail(f"C06 fails on find_local_peaks_rough: {why}", small, str(rough)[:600])

    none_ref = I.full(cms, thr, None, 5)
    if none_ref != rough:
        chk.disagree("find_local_peaks(refinement=None) == find_local_peaks_rough", small, str(none_ref)[:600], str(rough)[:600])
        why = oracle_rough(np, a, thr, none_ref)
        if why:
            chk.fail(f"C06 fails on find_local_peaks(refinement=None): {why}", small, str(none_ref)[:600])
    if p == 0 or (rough and rough[0] == "raise"):
        return
    refined = I.full(cms, thr, "integral", p)
    if is_p1_raise(refined, p):
        # documented behaviour of the pinned tree (finding F-C06p1); the model's value is rough + 0
        chk.fail("C06: find_local_peaks(integral, integral_patch_size=1) raises inside kornia", small, str(refined),
                 ["patch_size_1"])
        return
    if refined and refined[0] == "raise":
        chk.disagree("find_local_peaks(integral) raises where the model does not", small, str(refined), "ok")
        chk.fail("C06: find_local_peaks(integral) raised", small, str(refined))
        return
    # correspondence on the refined output
    if [(q[2], q[3], q[4]) for q in refined] != [(v, s, c) for _, _, v, s, c, _ in model]:
        chk.disagree("find_local_peaks(integral) indices/values == Peaks.localPeaks", small, str(refined)[:600], str(model)[:600])
    else:
        for k, (q, m) in enumerate(zip(refined, model)):
            P = patch_of(np, a, m[3], m[4], m[0], m[1], p)
            z, az = float(P.sum()), float(np.abs(P).sum())
            if m[5] == "inf" or abs(z) < 1e-3 * az:
                chk.knife_edges += 1
                chk.tag("knife:patch_sum~0")
                continue
            cond = (p + 1) / 2 * az / abs(z)
            tol = 5e-5 * max(1.0, cond)
            ex, ey = abs(q[0] - float(m[5][0])), abs(q[1] - float(m[5][1]))
            chk.extra["max_refine_err_over_tol"] = max(chk.extra.get("max_refine_err_over_tol", 0.0), max(ex, ey) / tol)
            chk.extra["max_refine_abs_err_over_kappa"] = max(chk.extra.get("max_refine_abs_err_over_kappa", 0.0), max(ex, ey) * abs(z) / az)
            if not (ex <= tol and ey <= tol):
                chk.disagree("find_local_peaks(integral) points == Peaks.localPeaks (tol)", {**small, "peak": k},
                             [q[0], q[1]], [float(m[5][0]), float(m[5][1])])
                break
    why, sigs = oracle_refine(np, a, rough, refined, p)
    if has_neg:
        chk.extra["excluded_region_cases"] = chk.extra.get("excluded_region_cases", 0) + 1
    if why:
        chk.fail(f"C06 fails on find_local_peaks(integral, p={p}): {why}", small, str(refined)[:600], sigs)


def witness_case(w):
    h, wd = w["h"], w["w"]
    m = [[0.0] * wd for _ in range(h)]
    for (x, y, v) in w["cells"]:
        m[y][x] = v
    return {"S": 1, "C": 1, "h": h, "w": wd, "den": 1, "maps": [m], "thr": w["thr"], "p": w["patch"],
            "kind": "witness", "shape": "witness"}


def main(chk: Check):
    chk.build_and_audit()
    import_repo()
    I = Impl()
    np, torch = I.np, I.torch
    rng = chk.rng
    torch.manual_seed(rng.randrange(2 ** 31))

    # ---- known finding replays (F-C06 negative patch, F-C06z zero-sum patch)
    for ent in chk.known:
        case = witness_case(ent["witness"])
        cms = I.tensor(case)
        got = I.full(cms, case["thr"], "integral", ent["witness"]["patch"])
        rough = I.rough(cms, case["thr"])
        why, sigs = oracle_refine(np, cms.numpy(), rough, got, case["p"])
        m = parse_model(run_driver("C06.lean", [model_line(case, cms)])[0])
        if ent["signature"] == "patch_size_1":
            agrees = len(m) == 1 and (is_p1_raise(got, 1) or (len(got) == 1 and m[0][5] not in (None, "inf")
                                                               and abs(got[0][0] - float(m[0][5][0])) < 1e-3))
        elif ent["signature"] == "negative_patch":
            agrees = (len(got) == len(m) == 1 and m[0][5] not in (None, "inf")
                      and abs(got[0][0] - float(m[0][5][0])) < 1e-3)
        else:
            agrees = len(got) == len(m) == 1 and m[0][5] == "inf"
        if not agrees:
            chk.disagree(f"{ent['id']} witness: implementation == model", ent["witness"], str(got), str(m))
        chk.known_replay(ent["id"], still_fails=bool(why) and ent["signature"] in sigs, detail=f"impl={got} model={m}")

    # ---- corpus
    cases = []
    import json
    from common import CORPUS
    for f in sorted((CORPUS / "C06").glob("*.json")) if (CORPUS / "C06").exists() else []:
        c = json.loads(f.read_text())
        c.setdefault("kind", "corpus"), c.setdefault("shape", "corpus")
        cases.append(c)
    # fixed regression cases: suite example, plateau, corner peaks, 1x1
    cases.append({"S": 1, "C": 1, "h": 5, "w": 5, "den": 8, "thr": 0.2, "p": 5, "kind": "fixed", "shape": "fixed",
                  "maps": [[[0, 0, 0, 0, 0], [0, 8, 4, 0, 0], [0, 4, 0, 0, 0], [0, 0, 0, 6, 6], [0, 0, 0, 6, 7]]]})
    cases.append({"S": 1, "C": 2, "h": 1, "w": 1, "den": 8, "thr": 0.0, "p": 3, "kind": "fixed", "shape": "1x1",
                  "maps": [[[3]], [[0]]]})
    cases.append({"S": 2, "C": 1, "h": 3, "w": 3, "den": 8, "thr": 0.125, "p": 3, "kind": "fixed", "shape": "fixed",
                  "maps": [[[8, 0, 8], [0, 0, 0], [8, 0, 8]], [[8, 8, 0], [0, 0, 0], [0, 0, 1]]]})
    for _ in range(chk.n(1000, 8000)):
        cases.append(gen_case(rng))

    lines = [model_line(c, I.tensor(c)) for c in cases]
    out = run_driver("C06.lean", lines)
    for c, m in zip(cases, out):
        run_case(chk, I, c, m)

    # ---- integral_regression alone (patch → offsets), incl. non-square use of xv / yv
    n_off = chk.n(300, 3000)
    pats, plines = [], []
    for _ in range(n_off):
        p = rng.choice([2, 3, 4, 5, 6, 7, 8])
        neg = rng.random() < 0.3
        ints = [rng.randrange(-8 if neg else 0, 9) for _ in range(p * p)]
        if rng.random() < 0.3:
            ints = [v if rng.random() < 0.3 else 0 for v in ints]
        pats.append((p, ints))
        plines.append(f"offsets {p} " + lst([rat(Fraction(v, 8)) for v in ints]))
    pout = run_driver("C06.lean", plines)
    for (p, ints), m in zip(pats, pout):
        t = (torch.tensor(ints, dtype=torch.float32) / 8).reshape(1, 1, p, p)
        gv = torch.arange(p, dtype=torch.float32) - ((p - 1) / 2)
        dx, dy = I.pf.integral_regression(t, xv=gv, yv=gv)
        dx, dy = float(dx), float(dy)
        z, az = sum(ints) / 8, sum(abs(v) for v in ints) / 8
        chk.case(("offsets", p, tuple(ints)) if az > 0 else None, None, tags=["op:offsets"])
        if m == "inf inf" or abs(z) < 1e-3 * az:
            chk.knife_edges += 1
            continue
        mx, my = (float(Fraction(s)) for s in m.split())
        tol = 5e-5 * max(1.0, (p + 1) / 2 * az / abs(z))
        if not (abs(dx - mx) <= tol and abs(dy - my) <= tol):
            chk.disagree("integral_regression == Peaks.integralOffsets", {"p": p, "patch_x8": ints}, [dx, dy], [mx, my])
            if min(ints) >= 0 and not (abs(dx) <= p / 2 and abs(dy) <= p / 2):
                chk.fail("C06: integral_regression offset exceeds half a patch on a non-negative patch",
                         {"p": p, "patch_x8": ints}, [dx, dy])


def replay(chk: Check, payload):
    import_repo()
    I = Impl()
    case = payload.get("case") or payload["disagreements"][0]["case"]
    if "maps" not in case:
        print("replay: case is not a map case:", case)
        return
    case.setdefault("kind", "replay"), case.setdefault("shape", "replay")
    m = run_driver("C06.lean", [model_line(case, I.tensor(case))])[0]
    print(f"replay case={ {k: case[k] for k in ('S', 'C', 'h', 'w', 'thr')} } p={patch_size(case)} model={m[:300]}")
    run_case(chk, I, case, m, where="replay")


if __name__ == "__main__":
    chk = Check(
        "C06", module="SleapVerif.Props.C06", theorems=THEOREMS,
        build_targets=["SleapVerif.Model.Peaks", "SleapVerif.Model.Proto"],
        trusted=[
            "Lean 4.33 kernel; axioms ⊆ {propext, Classical.choice, Quot.sound} (audited per run)",
            "hand-written model Peaks.lean of find_local_peaks_rough / find_local_peaks / integral_regression; tied to "
            "/repo by exact comparison (sets, order, indices, values) and 5e-5·cond comparison (refined points) on the explored maps only",
            "kornia dilation (geodesic border, max_val=1e4) and crop_and_resize (align_corners sampling at c-(p-1)/2+k: cells for odd p, "
            "bilinear mean of four cells for even p; zero padding): modelled, validated by the correspondence",
            "float32 comparisons on dyadic map values (k/8, k/16, |v| ≤ 1) coincide with comparisons of the rationals they denote",
        ],
        rule="S,C in 1..3, maps 1x1 / 1xN / Nx1 / up to 10x10 on the 1/8 or 1/16 lattice (few-level random fields = many ties, plateaus, "
             "sparse border/corner peaks, quantised Gaussian bumps, each with and without negative values; duplicate maps across slots), "
             "7 thresholds incl. negative and -1e4, integral_patch_size 1..8 (odd and even) or none; distinct = distinct (shape, thr, patch, map bytes) with >= 1 peak; "
             "trivial = no peak; plus raw patches through integral_regression",
        assumptions=[
            "finite maps; threshold >= -1e4 (kornia's border constant); integral_patch_size 1..8: odd p reads cells, even p reads "
            "means of four cells (half-integer sampling), both modelled; p = 1 raises inside kornia (F-C06p1) where the model gives offset 0",
            "refinement bound is proved for non-negative patches with positive sum only (F-C06); negative patches are sampled "
            "every run with the property oracle (excluded_region_cases) — search, not proof",
        ],
    )
    run_check(chk, main, replay)
