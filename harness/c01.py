"""C01 — confidence-map training targets faithfully encode the labelled keypoints.

Model: lean/SleapVerif/Model/{Scalar,Grid,Confmaps}.lean; theorems: lean/SleapVerif/Props/C01.lean.
Correspondence: `generate_confmaps`, `generate_multiconfmaps(is_centroids in {F,T})`,
`ConfidenceMapGenerator`, `MultiConfidenceMapGenerator` (real code, in process) vs the Lean driver,
which evaluates the same generic definitions at `Rat` (exact shape / zero pattern / argmax cell) and
at `Float` (values).  Compared: shape, all-zero channels and finiteness exactly; values with
|Δ| ≤ TOL; the argmax cell exactly when the model's own margin between best and second-best value
is > ARG_MARGIN (otherwise a knife-edge, counted, not compared).
"""
import math

import numpy as np

from common import Check, call, import_repo, rat, run_check, run_driver, unrat

THEOREMS = ["SleapVerif.C01." + t for t in [
    "gridLen_ceil", "gridLen_of_dvd", "grid_point_lt",
    "cm_value", "cm_value_visible", "cm_shape", "cm_shape_lengths", "cm_shape_dvd",
    "cm_range", "cm_pos_visible", "cm_one_iff",
    "cm_antitone_dist", "cm_strict_antitone_dist", "cm_argmax_nearest",
    "cm_missing_zero", "mkPoint_none_left", "mkPoint_none_right",
    "multi_eq_sup", "multi_value", "multi_shape", "multi_range",
    "multi_ignores_padding", "multi_ignores_suffix", "multi_ignores_missing", "multi_missing_zero",
    "centroid_single_channel",
    "cm_antitone_dist_cross", "multi_argmax_nearest", "flatten_channel_index", "cm4_value",
    "multi_batch_independent", "multi_batch_value", "centroid_batch_independent", "cm_batch_independent",
    "multi_batch_asIs_single", "multi_batch_asIs_counterexample",
    "passes_independent", "dp_passes_independent", "dp_stream_independent",
]]

TOL = 2e-6          # float32 implementation vs float64 model: observed noise ≤ ~1.2e-7 (evidence: max_abs_diff)
ARG_MARGIN = 1e-4   # argmax compared only when best − second-best (model, float64) exceeds this
# tail check: wherever the reference value is ≥ TAIL_MIN (far above float32's smallest normal 1.2e-38) the
# implementation must be positive and within a RELATIVE tolerance that grows with the exponent
# (float32 rounding of the exponent argument a = -ln v is ~3e-7·a; observed: evidence max_rel_over_tol)
TAIL_MIN = 1e-30
VARIANTS = ["cm3", "cm4", "multi", "cent", "dp_cm", "dp_cm_inst", "dp_multi", "dp_cent"]
DEFAULTS = {"cm3": (1.5, 2), "cm4": (1.5, 2), "multi": (1.5, 2), "cent": (1.5, 2),
            "dp_cm": (1.5, 1), "dp_cm_inst": (1.5, 1), "dp_cent": (1.5, 1)}   # (sigma, output_stride) in the signatures


def rel_tol(ref):
    return 2e-5 + 4e-6 * np.abs(np.log(ref))


def tail_mismatch(out, ref):
    """First cell where ref ≥ TAIL_MIN and out is not positive / not within rel_tol; also returns
    the largest observed (relative error / tolerance)."""
    mask = ref >= TAIL_MIN
    if not mask.any():
        return None, 0.0
    r = ref[mask]
    o = out[mask]
    err = np.abs(o / r - 1.0) / rel_tol(r)
    k = int(np.argmax(err))
    if err[k] > 1.0:
        idx = np.argwhere(mask)[k]
        return (tuple(int(v) for v in idx), float(o[k]), float(r[k])), float(err[k])
    return None, float(err[k])


# ------------------------------------------------------------------ generator
def gen_coord(rng, size):
    """One coordinate on the k/16 lattice: inside, on the border, outside, far outside."""
    r = rng.random()
    if r < 0.58:
        return rng.randrange(0, 16 * size) / 16.0
    if r < 0.68:
        return float(rng.choice([0, size - 1, size, max(size - 1, 0) // 2]))
    if r < 0.75:
        return rng.randrange(-16 * 6, 0) / 16.0
    if r < 0.82:
        return size + rng.randrange(0, 16 * 6) / 16.0
    if r < 0.87:  # far outside: up to ±10 image sizes
        return rng.choice([-1, 1]) * rng.randrange(16 * size, 16 * 10 * size + 1) / 16.0 + (size if rng.random() < 0.5 else 0)
    if r < 0.93:  # not on the lattice: an arbitrary float32
        return float(np.float32(rng.uniform(-2.0, size + 2.0)))
    return float(rng.randrange(0, size))  # exactly on a pixel


def gen_point(rng, H, W, nan_mode):
    x, y = gen_coord(rng, W), gen_coord(rng, H)
    if nan_mode == "half" and rng.random() < 0.5:
        return [None, y] if rng.random() < 0.5 else [x, None]
    return [x, y]


def gen_sigma(rng):
    if rng.random() < 0.6:
        return rng.choice([0.5, 1.0, 1.5, 2.5, 5.0])
    return float(math.exp(rng.uniform(math.log(0.05), math.log(20.0))))   # continuous, any double


def gen_case(rng, variant=None, pin=None, allow_decoy=True):
    pin = pin or {}
    variant = variant or rng.choice(VARIANTS)
    stride = pin.get("stride") or rng.choice([1, 2, 2, 4, 4, 8, 16, 32])
    sigma = pin.get("sigma") or gen_sigma(rng)
    if "H" in pin:
        H, W = pin["H"], pin["W"]
    else:
        r = rng.random()
        if stride >= 16 and r < 0.7:       # large frames (grid stays ≤ 64 x 64)
            H, W = rng.randrange(33, 1537), rng.randrange(33, 1537)
            if rng.random() < 0.5:
                H, W = H // stride * stride, W // stride * stride
        elif r < 0.45:   # multiples of the stride (what the datasets produce)
            H, W = stride * rng.randrange(1, max(2, 40 // stride)), stride * rng.randrange(1, max(2, 40 // stride))
        elif r < 0.9:
            H, W = rng.randrange(1, 41), rng.randrange(1, 41)
        else:
            H, W = rng.randrange(1, 65), rng.randrange(1, 65)
    n_inst = rng.choice([0, 1, 1, 1, 2, 2, 2, 3, 3, 4, 4, 1, 2, 3])
    n_nodes = rng.choice([1, 1, 2, 3, 4, 5])
    n_samples = 1 if rng.random() < 0.75 else 2
    nan_mode = rng.choice(["none"] * 4 + ["one"] * 3 + ["anchor"] * 2 + ["animal"] * 2 + ["half"] * 2 + ["all"])

    def animal(missing_animal=False):
        pts = [gen_point(rng, H, W, nan_mode) for _ in range(n_nodes)]
        if nan_mode == "one" and pts:
            pts[rng.randrange(len(pts))] = [None, None]
        if nan_mode == "anchor" and pts:
            pts[0] = [None, None]
        if missing_animal or nan_mode == "all":
            pts = [[None, None] for _ in pts]
        return pts

    def animals():
        k = rng.randrange(n_inst) if (nan_mode == "animal" and n_inst) else -1
        return [animal(i == k) for i in range(n_inst)]

    case = {"variant": variant, "H": H, "W": W, "stride": stride, "sigma": sigma}
    if variant in ("cm3", "dp_cm_inst"):
        case["pts"] = [animal() for _ in range(n_samples)]                      # (S, N, 2)
    elif variant in ("cm4", "dp_cm", "multi", "dp_multi"):
        case["pts"] = [animals() for _ in range(n_samples)]                     # (S, I, N, 2)
        case["n_nodes"] = n_nodes
    else:  # cent, dp_cent
        case["pts"] = [[a[0] for a in animals()] for _ in range(n_samples)]     # (S, I, 2)
    if variant in ("multi", "cent", "dp_cent"):
        case["num_instances"] = rng.choice([n_inst] * 7 + [max(n_inst - 1, 0)] * 2 + [n_inst + 2] * 2 + [0])
    # DataPipes: the same generator OBJECT is iterated several times (one iter() per epoch), sometimes interleaved
    if variant.startswith("dp_") and allow_decoy and rng.random() < 0.75:
        case["history"] = {"passes": rng.choice([2, 2, 3]), "interleave": rng.random() < 0.35}
    # DataPipes: sometimes a second, different example travels through the same pipe object
    if variant.startswith("dp_") and allow_decoy and rng.random() < 0.6:
        case["decoy"] = gen_case(rng, variant, pin={"stride": stride, "sigma": sigma}, allow_decoy=False)
        case["decoy_first"] = rng.random() < 0.6
    return case


def swapped(case):
    """The same two-example stream observed at the other example (every example of a DataPipe stream
    is compared with the model's answer for that example alone; the two have independent sizes)."""
    d = case.get("decoy")
    if not d:
        return None
    import copy
    c = copy.deepcopy(d)
    c["decoy"] = {k: v for k, v in copy.deepcopy(case).items() if k not in ("decoy", "decoy_first", "history")}
    c["decoy_first"] = not case.get("decoy_first")
    if case.get("history"):
        c["history"] = copy.deepcopy(case["history"])
    return c


def default_case(rng, variant):
    """Entry point called with its default sigma / output_stride (not passed explicitly)."""
    sg, st = DEFAULTS[variant]
    c = gen_case(rng, variant, pin={"sigma": sg, "stride": st}, allow_decoy=False)
    c["defaults"] = True
    return c


# ------------------------------------------------------------------ implementation
def to_tensor(pts, shape):
    import torch
    flat = []

    def walk(t):
        if isinstance(t, list):
            for u in t:
                walk(u)
        else:
            flat.append(float("nan") if t is None else t)
    walk(pts)
    return torch.tensor(np.array(flat, dtype=np.float64).reshape(shape), dtype=torch.float32)


def case_tensor(case):
    v, pts = case["variant"], case["pts"]
    S = len(pts)
    if v in ("cm4", "dp_cm", "multi", "dp_multi"):
        return to_tensor(pts, (S, len(pts[0]), case["n_nodes"], 2))
    return to_tensor(pts, (S, len(pts[0]), 2))


def dp_example(case, t):
    import torch
    v = case["variant"]
    img = torch.zeros((t.shape[0], 1, case["H"], case["W"]))
    if v == "dp_cm":
        return {"image": img, "instances": t}
    if v == "dp_cm_inst":
        return {"instance_image": img, "instance": t}
    if v == "dp_multi":
        return {"image": img, "instances": t}
    return {"image": img, "centroids": t, "num_instances": case["num_instances"]}


DP_ATTRS = ("sigma", "output_stride", "centroids", "image_key", "instance_key")


def jitter(t, k=1):
    """Different keypoints, same tensor shape (NaNs stay NaN): shifted and, along the animal/node
    axis, reversed."""
    import torch
    t2 = t.clone() + (1.25 * k)
    return torch.flip(t2, dims=[1]) if t2.ndim >= 3 and t2.shape[1] > 1 else t2


def tsame(a, b):
    import torch
    return a.shape == b.shape and bool(((a == b) | (torch.isnan(a) & torch.isnan(b))).all())


def retained_check(kept, snaps, later):
    """RETENTION: `kept` are results handed out earlier (the very tensors, not copies), `snaps` their
    values at that time, `later` the results of further calls of the same output shape with different
    keypoints.  A result is a fresh value: it must still hold its own answer bit for bit and must not
    share storage with any later result."""
    for i, (kt, sn) in enumerate(zip(kept, snaps)):
        if not tsame(kt, sn):
            d = float((torch_nan0(kt) - torch_nan0(sn)).abs().max())
            return ("raise", "ResultAliased",
                    f"result {i + 1}, kept by the caller, changed after {len(later)} later call(s) with other keypoints and the same "
                    f"output shape {tuple(kt.shape)} (max |Δ| {d}): results are not fresh values")
        for j, lt in enumerate(later):
            if lt.numel() and kt.numel() and kt.untyped_storage().data_ptr() == lt.untyped_storage().data_ptr():
                return ("raise", "ResultAliased",
                        f"result {i + 1} and the result of later call {j + 1} share one storage (output shape {tuple(kt.shape)})")
    return None


def torch_nan0(t):
    import torch
    return torch.nan_to_num(t.detach().to(torch.float64), nan=0.0)


def run_history(case):
    """Runs the case through the real code.  Returns a list of (label, result) — one entry per
    observation, result = ('ok', ndarray) | ('raise', cls, msg).  Plain functions are one call.
    A DataPipe case is a HISTORY over ONE generator object: `case["history"]["passes"]` passes, each
    a fresh `iter()` (one per epoch in training); with `interleave` the second iterator is started
    and exhausted while the first has only delivered its first example (torch then invalidates the
    first one, which is abandoned).  Every pass is an observation
    (the model is stateless: the same answer is required each time), and the object's public
    attributes must be unchanged after each pass."""
    import torch
    from sleap_nn.data import confidence_maps as cmod

    v, H, W, s, sg = case["variant"], case["H"], case["W"], case["stride"], case["sigma"]
    t = case_tensor(case)
    before = t.clone()
    kw = {} if case.get("defaults") else {"sigma": sg, "output_stride": s}

    def canon(r):
        if r[0] == "raise":
            return r
        if not torch.equal(torch.nan_to_num(before, nan=-12345.0), torch.nan_to_num(t, nan=-12345.0)):
            return ("raise", "InputMutated", "input tensor was modified")
        return ("ok", r[1].detach().cpu().numpy().copy())

    if not v.startswith("dp_"):
        if v in ("cm3", "cm4"):
            r = call(cmod.generate_confmaps, t, (H, W), **kw)
        elif v == "multi":
            r = call(cmod.generate_multiconfmaps, t, (H, W), case["num_instances"], **kw,
                     **({} if case.get("defaults") else {"is_centroids": False}))
        else:
            r = call(cmod.generate_multiconfmaps, t, (H, W), case["num_instances"], **kw, is_centroids=True)
        obs = [("call", canon(r))]
        if r[0] == "ok" and torch.is_tensor(r[1]):
            # call history with RETAINED results: keep result 1 itself, make two further calls of the same output shape with
            # other keypoints (the same public function, then make_confmaps / make_multi_confmaps directly), re-read result 1
            kept, snap = r[1], r[1].clone()
            from sleap_nn.data.utils import make_grid_vectors
            xv, yv = make_grid_vectors(H, W, s)
            j1, j2 = jitter(t, 1), jitter(t, 2)
            if v in ("cm3", "cm4"):
                l1 = call(cmod.generate_confmaps, j1, (H, W), **kw)
                l2 = call(cmod.make_confmaps, j2.view(j2.shape[0], -1, 2), xv, yv, sg * s)
            elif v == "multi":
                l1 = call(cmod.generate_multiconfmaps, j1, (H, W), case["num_instances"], **kw)
                l2 = call(cmod.make_multi_confmaps, j2[:, :case["num_instances"]], xv, yv, sg * s)
            else:
                l1 = call(cmod.generate_multiconfmaps, j1, (H, W), case["num_instances"], **kw, is_centroids=True)
                l2 = call(cmod.make_multi_confmaps, j2[:, :case["num_instances"]].unsqueeze(-2), xv, yv, sg * s)
            later = [x[1] for x in (l1, l2) if x[0] == "ok" and torch.is_tensor(x[1])]
            bad = retained_check([kept], [snap], later)
            if bad:
                obs.append(("two-call history: result 1 re-read after later calls", bad))
        return obs

    exs = [dp_example(case, t)]
    pos = 0
    if case.get("decoy"):
        d = dp_example(case["decoy"], case_tensor(case["decoy"]))
        exs, pos = ([d] + exs, 1) if case.get("decoy_first") else (exs + [d], 0)
    if v == "dp_cm":
        mk, key = (lambda xs: cmod.ConfidenceMapGenerator(xs, **kw)), "confidence_maps"
    elif v == "dp_cm_inst":
        mk = lambda xs: cmod.ConfidenceMapGenerator(xs, **kw, image_key="instance_image", instance_key="instance")
        key = "confidence_maps"
    elif v == "dp_multi":
        mk, key = (lambda xs: cmod.MultiConfidenceMapGenerator(xs, **kw, centroids=False)), "confidence_maps"
    else:
        mk = lambda xs: cmod.MultiConfidenceMapGenerator(xs, **kw, **({} if case.get("defaults") else {"centroids": True}))
        key = "centroids_confidence_maps"
    r0 = call(mk, exs)
    if r0[0] == "raise":
        return [("construct", r0)]
    dp = r0[1]
    attrs0 = {k: getattr(dp, k) for k in DP_ATTRS if hasattr(dp, k)}
    hist = case.get("history") or {"passes": 1, "interleave": False}
    obs = []

    def attrs_check(label):
        now = {k: getattr(dp, k) for k in attrs0 if hasattr(dp, k)}
        if now != attrs0:
            ch = {k: (attrs0[k], now.get(k)) for k in attrs0 if now.get(k) != attrs0[k]}
            obs.append((label + " attributes", ("raise", "StateMutated",
                                                f"public attributes of the generator object changed: {ch}")))

    def drain(it):
        return [e[key].clone() for e in it]

    k = hist["passes"]
    start = 0
    if hist.get("interleave") and k >= 2:
        # torch allows one live iterator per IterDataPipe: creating the second invalidates the first (continuing it
        # raises RuntimeError by design), so the first pass is abandoned after its first example.
        def both():
            it1 = iter(dp)
            first = next(it1)[key].clone()
            second = drain(iter(dp))            # a whole second pass started while the first is suspended
            return first, second
        r = call(both)
        if r[0] == "raise":
            obs.append(("pass 1+2 (interleaved)", r))
        else:
            if pos == 0:
                obs.append(("pass 1 (abandoned after its first example)", canon(("ok", r[1][0]))))
            obs.append(("pass 2 (started while pass 1 was suspended)", canon(("ok", r[1][1][pos]))))
        attrs_check("after the interleaved passes:")
        start = 2
    for n in range(start, k):
        r = call(lambda: drain(iter(dp))[pos])
        obs.append((f"pass {n + 1}", canon(r)))
        attrs_check(f"after pass {n + 1}:")

    # RETENTION: keep the tensors one more pass hands out (not copies), then run a second generator over examples of
    # the same shapes with other keypoints, and re-read the kept tensors
    def retention():
        kept = [e[key] for e in iter(dp)]
        snaps = [x.clone() for x in kept]
        pkey = "centroids" if v == "dp_cent" else ("instance" if v == "dp_cm_inst" else "instances")
        exs2 = [{**e, pkey: jitter(e[pkey], 1)} for e in exs]
        for e in exs2:
            e.pop(key, None)
        later = [e[key] for e in iter(mk(exs2))]
        return retained_check(kept, snaps, later)
    rr = call(retention)
    if rr[0] == "raise":
        obs.append(("retention pass", rr))
    elif rr[1]:
        obs.append(("history: results of one pass re-read after a later generator run of the same shapes", rr[1]))
    return obs


def run_impl(case):
    """First observation only (plain call / first pass)."""
    return run_history(case)[0][1]


def first_oracle_failure(case, outputs_only=False):
    """(label, why) of the first observation of the history on which the property itself fails
    (wrong output / raise); a changed attribute is reported only when no output is wrong."""
    state = None
    for label, r in run_history(case):
        if r[0] == "raise":
            if r[1] == "StateMutated":
                state = state or (label, f"{r[1]}: {r[2]}")
                continue
            return label, (r[2] if r[1] == "ResultAliased" else f"raised {r[1]}: {r[2]}")
        why = oracle(case, r[1])
        if why:
            return label, why
    return None if outputs_only else state


# ------------------------------------------------------------------ model side
def pt_str(p):
    return f"{rat(p[0])} {rat(p[1])}"


def channels_of(case):
    """Per-sample list of channels; a channel is the list of keypoints reduced (max) into it.
    This is the *property's* reading: sample `b` only sees its own animals."""
    v = case["variant"]
    out = []
    for smp in case["pts"]:
        if v in ("cm3", "dp_cm_inst"):
            out.append([[p] for p in smp])
        elif v in ("cm4", "dp_cm"):
            out.append([[p] for a in smp for p in a])
        elif v in ("multi", "dp_multi"):
            k = case["num_instances"] if v == "multi" else len(smp)
            out.append([[a[c] for a in smp[:k]] for c in range(case["n_nodes"])])
        else:
            out.append([[p for p in smp[: case["num_instances"]]]])
    return out


def model_lines(case):
    """One driver request for the whole batch (the driver calls the batch-level model definitions and
    answers one report per sample, joined by ' ; ')."""
    v = case["variant"]
    head = f"{rat(case['sigma'])} {case['stride']} {case['H']} {case['W']}"
    pts = case["pts"]
    S = len(pts)
    if v in ("cm3", "dp_cm_inst"):
        flat = [p for smp in pts for p in smp]
        line = f"cm {head} {S} {len(pts[0])} " + " ".join(pt_str(p) for p in flat)
    elif v in ("cm4", "dp_cm"):
        flat = [p for smp in pts for a in smp for p in a]
        line = f"cm4 {head} {S} {len(pts[0])} {case['n_nodes']} " + " ".join(pt_str(p) for p in flat)
    elif v in ("multi", "dp_multi"):
        k = case["num_instances"] if v == "multi" else len(pts[0])
        flat = [p for smp in pts for a in smp for p in a]
        line = f"multi {head} {k} {case['n_nodes']} {S} {len(pts[0])} " + " ".join(pt_str(p) for p in flat)
    else:
        flat = [p for smp in pts for p in smp]
        line = f"cent {head} {case['num_instances']} {S} {len(pts[0])} " + " ".join(pt_str(p) for p in flat)
    return [" ".join(line.split())]


def split_reply(reply):
    return [r.strip() for r in reply.split(";")]


def parse_model(line):
    if line == "error":
        raise RuntimeError("driver could not parse a request")
    shape, zs, am, vals = [part.strip() for part in (line + " ").split("|")]
    C, h, w, rect = [int(x) for x in shape.split()]
    zs = [int(x) for x in zs.split()]
    am = [int(x) for x in am.split()]
    vals = np.array([unrat(x) for x in vals.split()], dtype=np.float64).reshape(C, h, w) if C * h * w else \
        np.zeros((C, h, w))
    return {"shape": (C, h, w), "rect": rect, "nonzero": zs, "argmax": am, "vals": vals}


def compare(chk, case, b, impl_b, m):
    """impl_b: (C,h,w) numpy of sample b; m: parsed model reply.  Returns description of first mismatch."""
    if m["rect"] != 1:
        return "model map not rectangular"
    if tuple(impl_b.shape) != m["shape"]:
        return f"shape impl {tuple(impl_b.shape)} model {m['shape']}"
    if not np.isfinite(impl_b).all():
        return "non-finite value in implementation output"
    C, h, w = m["shape"]
    for c in range(C):
        ch = impl_b[c].astype(np.float64)
        if m["nonzero"][c] == 0:
            if np.any(ch != 0):
                return f"channel {c}: model all-zero, impl max {ch.max()}"
            continue
        d = np.abs(ch - m["vals"][c])
        chk.extra["max_abs_diff"] = max(chk.extra.get("max_abs_diff", 0.0), float(d.max()) if d.size else 0.0)
        if d.size and d.max() > TOL:
            i, j = np.unravel_index(int(np.argmax(d)), d.shape)
            return f"channel {c} cell ({i},{j}): impl {ch[i, j]!r} model {m['vals'][c][i, j]!r}"
        if h * w == 0:
            continue
        bad, worst = tail_mismatch(ch, m["vals"][c])
        chk.extra["max_rel_over_tol"] = max(chk.extra.get("max_rel_over_tol", 0.0), worst)
        if bad:
            return f"channel {c} cell {bad[0]}: impl {bad[1]!r} vs model {bad[2]!r} differ relatively (tail check)"
        flat = m["vals"][c].ravel()
        a = m["argmax"][c]
        best = flat[a]
        second = np.max(np.delete(flat, a)) if flat.size > 1 else -np.inf
        if flat.size > 1 and best - second <= ARG_MARGIN:
            chk.knife_edges += 1
            continue
        if int(np.argmax(ch.ravel())) != a:
            return f"channel {c}: argmax impl {int(np.argmax(ch.ravel()))} model {a}"
    return None


# ------------------------------------------------------------------ property oracle (independent of the model)
def oracle(case, out):
    """C01 restated on the implementation's output, float64 brute force.  None if it holds."""
    H, W, s, sg = case["H"], case["W"], case["stride"], case["sigma"]
    h, w = math.ceil(H / s), math.ceil(W / s)
    chans = channels_of(case)
    S = len(chans)
    if out.ndim != 4 or out.shape[0] != S:
        return f"rank/batch: {out.shape}"
    gy = (np.arange(h) * s).reshape(-1, 1).astype(np.float64)
    gx = (np.arange(w) * s).reshape(1, -1).astype(np.float64)
    for b in range(S):
        if tuple(out.shape[1:]) != (len(chans[b]), h, w):
            return f"shape {tuple(out.shape)} expected (_, {len(chans[b])}, {h}, {w})"
        o = out[b].astype(np.float64)
        if not np.isfinite(o).all():
            return "NaN/inf in output"
        if o.size and (o.min() < 0 or o.max() > 1 + 1e-6):
            return f"value outside [0,1]: min {o.min()} max {o.max()}"
        for c, kps in enumerate(chans[b]):
            ref = np.zeros((h, w))
            for p in kps:
                if p[0] is None or p[1] is None:
                    continue
                x, y = float(np.float32(p[0])), float(np.float32(p[1]))
                ref = np.maximum(ref, np.exp(-((gx - x) ** 2 + (gy - y) ** 2) / (2.0 * (sg * s) ** 2)))
            vis = [p for p in kps if p[0] is not None and p[1] is not None]
            if not vis:
                if np.any(o[c] != 0):
                    return f"sample {b} channel {c}: no visible keypoint but max value {o[c].max()}"
                continue
            if h * w == 0:
                continue
            d = np.abs(o[c] - ref)
            if d.max() > TOL:
                i, j = np.unravel_index(int(np.argmax(d)), d.shape)
                return (f"sample {b} channel {c} cell (row {i}, col {j}): value {o[c][i, j]!r}, "
                        f"Gaussian of the distance gives {ref[i, j]!r}")
            bad, _ = tail_mismatch(o[c], ref)
            if bad:
                return (f"sample {b} channel {c} cell (row {bad[0][0]}, col {bad[0][1]}): value {bad[1]!r}, Gaussian of the "
                        f"distance gives {bad[2]!r} (relative error beyond the float32 allowance; tail check)")
            flat = ref.ravel()
            a = int(np.argmax(flat))
            if flat.size > 1 and flat[a] - np.max(np.delete(flat, a)) > ARG_MARGIN and int(np.argmax(o[c].ravel())) != a:
                return f"sample {b} channel {c}: maximum at flat cell {int(np.argmax(o[c].ravel()))}, nearest cell is {a}"
    return None


def case_size(case):
    flat = []

    def walk(t):
        if isinstance(t, list) and (not t or isinstance(t[0], list) or len(t) != 2):
            for u in t:
                walk(u)
        else:
            flat.append(t)
    walk(case["pts"])
    nonint = sum(1 for p in flat for v in p if v is not None and v != round(v))
    hh = case.get("history") or {}
    return (1 if case.get("decoy") else 0, hh.get("passes", 1) + (1 if hh.get("interleave") else 0), len(flat), len(case["pts"]), case["H"] + case["W"], case["stride"],
            0 if case["sigma"] == 1.0 else 1, nonint)


def shrink(case, still_fails):
    """Greedy structural shrink keeping `still_fails(case)` true; every accepted step strictly
    decreases `case_size` (lexicographic), so it terminates."""
    import copy
    cur = copy.deepcopy(case)
    changed = True
    while changed:
        changed = False
        cands = []
        v = cur["variant"]
        for b in range(len(cur["pts"])):          # drop an animal / node entry
            for k in range(len(cur["pts"][b])):
                c = copy.deepcopy(cur)
                # keep the batch rectangular: drop index k in every sample
                for bb in range(len(c["pts"])):
                    if k < len(c["pts"][bb]):
                        del c["pts"][bb][k]
                if "num_instances" in c:
                    c["num_instances"] = min(c["num_instances"], len(c["pts"][0]))
                cands.append(c)
        if len(cur["pts"]) > 1:
            c = copy.deepcopy(cur); c["pts"] = c["pts"][:1]; cands.append(c)
        if cur.get("decoy"):
            c = copy.deepcopy(cur); c.pop("decoy"); c.pop("decoy_first", None); cands.insert(0, c)
        if cur.get("history"):
            hh = cur["history"]
            if hh.get("interleave"):
                c = copy.deepcopy(cur); c["history"]["interleave"] = False; cands.insert(0, c)
            if hh["passes"] > 1:
                c = copy.deepcopy(cur); c["history"]["passes"] -= 1; cands.insert(0, c)
        keys = (("H", [4, 8]), ("W", [4, 8])) + (() if cur.get("defaults") else (("stride", [1, 2]), ("sigma", [1.0])))
        for key, small in keys:
            for val in small:
                if cur[key] != val:
                    c = copy.deepcopy(cur); c[key] = val; cands.append(c)
        # snap coordinates to integers
        c = copy.deepcopy(cur)

        def snap(t):
            if isinstance(t, list):
                return [snap(u) for u in t]
            return None if t is None else float(round(t))
        c["pts"] = snap(c["pts"])
        if c != cur:
            cands.append(c)
        for c in cands:
            try:
                if case_size(c) < case_size(cur) and still_fails(c):
                    cur = c
                    changed = True
                    break
            except Exception:
                continue
    return cur


# ------------------------------------------------------------------ main
def case_key(case):
    return (case["variant"], case["H"], case["W"], case["stride"], case["sigma"],
            case.get("num_instances"), repr(case["pts"]), repr(case.get("history")))


def nontrivial(case):
    return any(p[0] is not None and p[1] is not None for ch_s in channels_of(case) for ch in ch_s for p in ch)


def tags_of(case):
    t = [case["variant"], f"stride{case['stride']}", f"samples{len(case['pts'])}"]
    t.append("divisible" if case["H"] % case["stride"] == 0 and case["W"] % case["stride"] == 0 else "non_divisible")
    flat = [p for ch_s in channels_of(case) for ch in ch_s for p in ch]
    if any(p[0] is None and p[1] is None for p in flat):
        t.append("nan_point")
    if any((p[0] is None) != (p[1] is None) for p in flat):
        t.append("half_nan_point")
    if any(p[0] is not None and p[1] is not None and not (0 <= p[0] < case["W"] and 0 <= p[1] < case["H"]) for p in flat):
        t.append("outside_point")
    if not flat:
        t.append("no_points")
    if case.get("decoy"):
        t.append("dp_two_examples")
    if case.get("history"):
        t.append(f"dp_history_{case['history']['passes']}_passes" + ("_interleaved" if case["history"].get("interleave") else ""))
    if case.get("defaults"):
        t.append("default_arguments")
    if max(case["H"], case["W"]) > 64:
        t.append("large_frame")
    if case["sigma"] not in (0.5, 1.0, 1.5, 2.5, 5.0):
        t.append("continuous_sigma")
    if any(p[0] is not None and p[1] is not None and (abs(p[0]) > 2 * case["W"] + 8 or abs(p[1]) > 2 * case["H"] + 8) for p in flat):
        t.append("far_outside_point")
    return t


def check_case(chk, case, model_replies):
    """Correspondence + oracle for every observation of the case's history.  Returns True when
    something was reported."""
    reported = False
    failing = None      # wrong output / raise
    state = None        # public attribute changed
    for label, r in run_history(case):
        tag = "" if label == "call" else f"[{label}] "
        if r[0] == "raise":
            chk.disagree("confidence maps: implementation raised / changed state where the model does not",
                         case, [label] + list(r), "ok")
            if r[1] == "StateMutated":
                state = state or (label, f"{r[1]}: {r[2]}")
            elif r[1] == "ResultAliased":
                failing = failing or (label, r[2])
            else:
                failing = failing or (label, f"raised {r[1]}: {r[2]}")
            reported = True
            continue
        out = r[1]
        if model_replies is not None:
            reps = split_reply(model_replies[0])
            if out.ndim != 4 or out.shape[0] != len(reps):
                chk.disagree("generate_*confmaps batch size", case, [label] + list(out.shape), len(reps))
                reported = True
            else:
                for b, line in enumerate(reps):
                    why = compare(chk, case, b, out[b], parse_model(line))
                    if why:
                        chk.disagree("generate_*confmaps == Confmaps model (stateless: every pass)", case,
                                     f"{tag}sample {b}: {why}", "see case")
                        reported = True
                        break
        why = oracle(case, out)
        if why and failing is None:
            failing = (label, why)
    if failing:
        def still(c):      # keep the KIND of failure while shrinking (a changed retained value stays a changed value)
            f = first_oracle_failure(c, outputs_only=True)
            return f is not None and (("changed after" in f[1]) == ("changed after" in failing[1]))
        small = shrink(case, still)
        f2 = first_oracle_failure(small, outputs_only=True) or failing
        chk.fail(f"C01 fails on the implementation ({f2[0]}): {f2[1]}", small,
                 {"original_case": case, "why_original": f"{failing[0]}: {failing[1]}"}, ())
        reported = True
    elif state:
        small = shrink(case, lambda c: first_oracle_failure(c) is not None)
        f2 = first_oracle_failure(small) or state
        chk.fail(f"C01: the generator object keeps state between passes ({f2[0]}): {f2[1]}", small,
                 {"original_case": case}, ())
        reported = True
    return reported


F_C01_WITNESS = {"variant": "multi", "H": 8, "W": 8, "stride": 1, "sigma": 1.0, "n_nodes": 1,
                 "num_instances": 1, "pts": [[[[1.0, 1.0]]], [[[5.0, 5.0]]]]}


def main(chk: Check):
    chk.build_and_audit()
    import_repo()
    rng = chk.rng
    np.random.seed(rng.randrange(2 ** 31))
    import torch
    torch.manual_seed(rng.randrange(2 ** 31))

    # ---- F-C01 (fixed in 372b25e): the witness is replayed as a regression on every run
    for ent in chk.known:
        if ent["id"] == "F-C01":
            w = ent.get("witness") or F_C01_WITNESS
            r = run_impl(w)
            why = oracle(w, r[1]) if r[0] == "ok" else f"raised {r[1]}"
            chk.known_replay("F-C01", still_fails=why is not None, detail=str(why))

    # ---- fixed regression cases (suite example, borders, the proof's case splits)
    cases = [
        {"variant": "cm3", "H": 4, "W": 4, "stride": 1, "sigma": 1.0, "pts": [[[1.0, 1.0], [None, None]]]},
        {"variant": "cm3", "H": 5, "W": 7, "stride": 2, "sigma": 1.0, "pts": [[[None, 1.0], [2.0, 2.0]]]},
        {"variant": "cm4", "H": 7, "W": 5, "stride": 2, "sigma": 1.5, "n_nodes": 2,
         "pts": [[[[0.0, 6.0], [4.0, 0.0]], [[4.5, 6.5], [None, None]]]]},
        {"variant": "multi", "H": 8, "W": 12, "stride": 4, "sigma": 0.5, "n_nodes": 2, "num_instances": 1,
         "pts": [[[[1.0, 1.0], [8.0, 4.0]], [[11.0, 7.0], [2.0, 6.0]]]]},
        {"variant": "multi", "H": 8, "W": 8, "stride": 2, "sigma": 1.0, "n_nodes": 1, "num_instances": 0,
         "pts": [[[[1.0, 1.0]]]]},
        {"variant": "cent", "H": 9, "W": 9, "stride": 2, "sigma": 1.5, "num_instances": 2,
         "pts": [[[2.0, 2.0], [None, None], [6.0, 6.0]]]},
        {"variant": "dp_cent", "H": 8, "W": 8, "stride": 2, "sigma": 1.5, "num_instances": 1,
         "pts": [[[2.0, 3.0], [6.0, 6.0]]]},
        {"variant": "multi", "H": 6, "W": 6, "stride": 2, "sigma": 1.0, "n_nodes": 3, "num_instances": 0,
         "pts": [[]]},
        F_C01_WITNESS,
        # two samples x two animals: catches a sample/instance axis mix-up in the reduction
        {"variant": "multi", "H": 8, "W": 8, "stride": 1, "sigma": 1.0, "n_nodes": 1, "num_instances": 2,
         "pts": [[[[1.0, 1.0]], [[6.0, 1.0]]], [[[1.0, 6.0]], [[6.0, 6.0]]]]},
        {"variant": "cent", "H": 8, "W": 8, "stride": 1, "sigma": 1.0, "num_instances": 2,
         "pts": [[[1.0, 1.0], [6.0, 1.0]], [[1.0, 6.0], [6.0, 6.0]]]},
        # histories over one DataPipe object: 3 passes, and 2 interleaved passes with two examples in the pipe
        {"variant": "dp_cm", "H": 8, "W": 8, "stride": 2, "sigma": 1.5, "n_nodes": 2,
         "history": {"passes": 3, "interleave": False}, "pts": [[[[2.0, 2.0], [5.0, 6.0]]]]},
        {"variant": "dp_cent", "H": 16, "W": 16, "stride": 4, "sigma": 1.0, "num_instances": 2,
         "history": {"passes": 3, "interleave": True}, "pts": [[[4.0, 4.0], [12.0, 9.0]]],
         "decoy": {"variant": "dp_cent", "H": 8, "W": 12, "stride": 4, "sigma": 1.0, "num_instances": 1,
                   "pts": [[[3.0, 3.0]]]}, "decoy_first": False},
        {"variant": "dp_multi", "H": 12, "W": 12, "stride": 2, "sigma": 0.5, "n_nodes": 1,
         "history": {"passes": 2, "interleave": True}, "pts": [[[[3.0, 3.0]], [[8.0, 9.0]]]]},
        {"variant": "dp_cm_inst", "H": 8, "W": 8, "stride": 4, "sigma": 2.5,
         "history": {"passes": 2, "interleave": False}, "pts": [[[1.0, 6.0], [None, None]]]},
        # long sides (more than 4096 cells along a full-resolution axis), a keypoint beyond x = 4096 / y = 4096
        {"variant": "cm3", "H": 16, "W": 4608, "stride": 4, "sigma": 1.5, "pts": [[[4300.0, 8.0], [100.0, 4.0]]]},
        {"variant": "cm3", "H": 5120, "W": 16, "stride": 2, "sigma": 2.5, "pts": [[[8.0, 4700.5], [4.0, 4095.0]]]},
        {"variant": "multi", "H": 4, "W": 4400, "stride": 1, "sigma": 1.0, "n_nodes": 1, "num_instances": 2,
         "pts": [[[[4250.0, 2.0]], [[4097.0, 1.0]]]]},
        {"variant": "dp_cent", "H": 4500, "W": 8, "stride": 4, "sigma": 1.5, "num_instances": 1, "pts": [[[4.0, 4400.0]]],
         "history": {"passes": 2, "interleave": False}},
        # large frame / large stride / far-away keypoint / small and large continuous sigma
        {"variant": "cm3", "H": 1024, "W": 768, "stride": 32, "sigma": 0.73, "pts": [[[511.5, 300.25], [-5000.0, 12.0]]]},
        {"variant": "cm3", "H": 64, "W": 64, "stride": 16, "sigma": 0.05, "pts": [[[16.0, 32.0], [17.0, 33.0]]]},
        {"variant": "multi", "H": 512, "W": 512, "stride": 16, "sigma": 19.7, "n_nodes": 2, "num_instances": 2,
         "pts": [[[[100.0, 100.0], [400.0, 90.0]], [[5000.0, 100.0], [250.5, 250.5]]]]},
    ]
    for v in DEFAULTS:                      # every entry point once with its default sigma / output_stride
        cases.append(default_case(rng, v))
    n_rand = chk.n(800, 8000)
    for k in range(n_rand):
        cases.append(gen_case(rng, VARIANTS[k % len(VARIANTS)]))

    cases += [c2 for c2 in (swapped(c) for c in list(cases)) if c2 is not None]
    lines = [model_lines(case)[0] for case in cases]
    replies = run_driver("C01.lean", lines)

    bad_cases = []
    for case, rep in zip(cases, replies):
        chk.case(case_key(case) if nontrivial(case) else None,
                 {k: case[k] for k in ("variant", "H", "W", "stride", "sigma")} | {"pts": case["pts"]},
                 tags=tags_of(case))
        if check_case(chk, case, [rep]):
            bad_cases.append(case)

    # ---- failing-input search around disagreements: same generator, parameters pinned, x20
    if chk.disagreements and not chk.failing:
        extra = []
        for bc in bad_cases[:3]:
            for _ in range(20):
                extra.append(gen_case(rng, bc["variant"], pin={k: bc[k] for k in ("H", "W", "stride", "sigma")}))
        for case in extra:
            chk.evaluations += 1
            if first_oracle_failure(case):
                check_case(chk, case, None)
                break


def replay(chk: Check, payload):
    import_repo()
    case = payload.get("case") or payload["disagreements"][0]["case"]
    rep = run_driver("C01.lean", model_lines(case))
    chk.case(case_key(case))
    print(f"replay case={case}")
    for label, r in run_history(case):
        print(f" [{label}] impl={'raise ' + str(r[1:]) if r[0] == 'raise' else 'shape ' + str(r[1].shape)}"
              f" oracle={oracle(case, r[1]) if r[0] == 'ok' else None}")
    check_case(chk, case, rep)


if __name__ == "__main__":
    chk = Check(
        "C01", module="SleapVerif.Props.C01", theorems=THEOREMS,
        build_targets=["SleapVerif.Model.Proto", "SleapVerif.Model.Scalar", "SleapVerif.Model.Grid",
                       "SleapVerif.Model.Confmaps", "SleapVerif.Lemmas.Transc", "SleapVerif.Lemmas.GridTab"],
        trusted=[
            "Lean 4.33 kernel + Mathlib; axioms ⊆ {propext, Classical.choice, Quot.sound} (audited per run)",
            "hand-written model Confmaps.lean/Grid.lean of confidence_maps.py + make_grid_vectors; tied to /repo by the "
            "correspondence on the explored inputs only (make_grid_vectors additionally by the AST translation, TranslatedC01)",
            "exp enters as a parameter with the order laws of Lemmas/Transc.lean (instantiated at ℝ by realTransc)",
            f"float32 evaluation in torch stays within {TOL} absolute and (2e-5 + 4e-6·|ln v|) relative (for v ≥ {TAIL_MIN}) of "
            "the float64 evaluation of the same expressions (measured: evidence max_abs_diff, max_rel_over_tol); "
            "NaN plumbing (nan_to_num) amounts to none ↦ 0 (checked exactly)",
            "torch.arange/reshape/view/broadcast/maximum index semantics (validated by the correspondence)",
        ],
        rule="8 entry points (generate_confmaps rank 3/4, generate_multiconfmaps, centroid variant, the two DataPipe classes in 4 "
             "configurations; DataPipe cases are HISTORIES over one generator object: 1-3 passes (fresh iter() each, 35% with the second "
             "pass interleaved into the first), every pass compared with the stateless model and the oracle, public attributes "
             "asserted unchanged; every call / pass is followed by 1-2 further calls of the same output shape with other keypoints (same "
             "function, then make_confmaps / make_multi_confmaps directly; for DataPipes a second generator run) after which the RETAINED "
             "earlier result must be bit-identical to its value when handed out and share no storage with the later results; DataPipes also with a second, different example in the same pipe and with n_samples = 2; every "
             "entry point once with default sigma/output_stride) x n_samples {1,2} x H,W in 1..64 and 33..1024 for stride >= 16 "
             "x stride {1,2,4,8,16,32} x sigma {.5,1,1.5,2.5,5} (60%) or log-uniform in [0.05,20] (40%) x 0-4 animals x 1-5 "
             "nodes x coordinates on the k/16 lattice inside/on/outside the border, up to +-10 image sizes away (+6% arbitrary "
             "float32) x NaN patterns {none, one node, anchor, whole animal, one coordinate, all}; distinct = distinct (variant, "
             "sizes, stride, sigma, num_instances, points); trivial = no visible keypoint",
        assumptions=[
            "sigma > 0, stride >= 1, finite coordinates (infinite inputs are outside the property's quantifier; the code "
            "returns an all-zero channel for them). stride = 0 is totalised by the model to an empty grid where torch.arange "
            "raises; num_instances < 0 (slices from the end) is outside the model's Nat: neither is generated",
            "sigma*stride is large enough that float32 2*sigma^2 does not underflow (< ~1e-19): below that the keypoint's own "
            "cell is 0/0 = NaN -> nan_to_num -> 0 where the real-number statement (cm_one_iff) says 1; generated sigma >= 0.05",
            "cm_pos_visible (v > 0 for a visible point) is a real-number statement: float32 underflows to 0 far from the "
            f"keypoint; the harness asserts positivity only where the reference value is >= {TAIL_MIN}",
            "shape is ceil(H/stride) x ceil(W/stride); equals H/stride x W/stride when stride divides both "
            "(cm_shape_dvd) - the datasets only call it on stride-padded images",
        ],
    )
    run_check(chk, main, replay)
