"""C01 — confidence-map training targets faithfully encode the labelled keypoints.

Model: lean/SleapVerif/Model/{Scalar,Grid,Confmaps}.lean; theorems: lean/SleapVerif/Props/C01.lean.
Correspondence: `generate_confmaps`, `generate_multiconfmaps(is_centroids in {F,T})`,
`ConfidenceMapGenerator`, `MultiConfidenceMapGenerator` (real code, in process) vs the Lean driver,
which evaluates the same generic definitions at `Rat` (exact shape / zero pattern / argmax cell) and
at `Float` (values).  Compared: shape, all-zero channels and finiteness exactly; values with
|Δ| ≤ TOL; the argmax cell exactly when the model's own margin between best and second-best value
is > ARG_MARGIN (otherwise a knife-edge, counted, not compared).
"""
import math

import numpy as np

from common import Check, call, import_repo, rat, run_check, run_driver, unrat

THEOREMS = ["SleapVerif.C01." + t for t in [
    "gridLen_ceil", "gridLen_of_dvd", "grid_point_lt",
    "cm_value", "cm_value_visible", "cm_shape", "cm_shape_lengths", "cm_shape_dvd",
    "cm_range", "cm_pos_visible", "cm_one_iff",
    "cm_antitone_dist", "cm_strict_antitone_dist", "cm_argmax_nearest",
    "cm_missing_zero", "mkPoint_none_left", "mkPoint_none_right",
    "multi_eq_sup", "multi_value", "multi_shape", "multi_range",
    "multi_ignores_padding", "multi_ignores_suffix", "multi_ignores_missing", "multi_missing_zero",
    "centroid_single_channel",
    "multi_batch_partial", "multi_batch_counterexample",
]]

TOL = 2e-6          # float32 implementation vs float64 model: observed noise ≤ ~1.2e-7 (evidence: max_abs_diff)
ARG_MARGIN = 1e-4   # argmax compared only when best − second-best (model, float64) exceeds this
VARIANTS = ["cm3", "cm4", "multi", "cent", "dp_cm", "dp_cm_inst", "dp_multi", "dp_cent"]
SIG_BATCH = "multi_n_samples_gt_1"


# ------------------------------------------------------------------ generator
def gen_coord(rng, size):
    """One coordinate on the k/16 lattice: inside, on the border, outside; None = NaN."""
    r = rng.random()
    if r < 0.62:
        return rng.randrange(0, 16 * size) / 16.0
    if r < 0.72:
        return float(rng.choice([0, size - 1, size, max(size - 1, 0) // 2]))
    if r < 0.80:
        return rng.randrange(-16 * 6, 0) / 16.0
    if r < 0.88:
        return size + rng.randrange(0, 16 * 6) / 16.0
    if r < 0.93:  # not on the lattice: an arbitrary float32
        return float(np.float32(rng.uniform(-2.0, size + 2.0)))
    return float(rng.randrange(0, size))  # exactly on a pixel


def gen_point(rng, H, W, nan_mode):
    x, y = gen_coord(rng, W), gen_coord(rng, H)
    if nan_mode == "half" and rng.random() < 0.5:
        return [None, y] if rng.random() < 0.5 else [x, None]
    return [x, y]


def gen_case(rng, variant=None, pin=None):
    pin = pin or {}
    variant = variant or rng.choice(VARIANTS)
    stride = pin.get("stride") or rng.choice([1, 2, 2, 4, 4, 8])
    sigma = pin.get("sigma") or rng.choice([0.5, 1.0, 1.5, 2.5, 5.0])
    if "H" in pin:
        H, W = pin["H"], pin["W"]
    else:
        r = rng.random()
        if r < 0.45:   # multiples of the stride (what the datasets produce)
            H, W = stride * rng.randrange(1, max(2, 40 // stride)), stride * rng.randrange(1, max(2, 40 // stride))
        elif r < 0.9:
            H, W = rng.randrange(1, 41), rng.randrange(1, 41)
        else:
            H, W = rng.randrange(1, 65), rng.randrange(1, 65)
    n_inst = rng.choice([0, 1, 1, 2, 2, 3, 4])
    n_nodes = rng.choice([1, 1, 2, 3, 4, 5])
    n_samples = 1 if rng.random() < 0.8 else 2
    if variant.startswith("dp_"):
        n_samples = 1
    nan_mode = rng.choice(["none", "none", "one", "anchor", "animal", "half", "all"])

    def animal(missing_animal=False):
        pts = [gen_point(rng, H, W, nan_mode) for _ in range(n_nodes)]
        if nan_mode == "one" and pts:
            pts[rng.randrange(len(pts))] = [None, None]
        if nan_mode == "anchor" and pts:
            pts[0] = [None, None]
        if missing_animal or nan_mode == "all":
            pts = [[None, None] for _ in pts]
        return pts

    def animals():
        k = rng.randrange(n_inst) if (nan_mode == "animal" and n_inst) else -1
        return [animal(i == k) for i in range(n_inst)]

    case = {"variant": variant, "H": H, "W": W, "stride": stride, "sigma": sigma}
    if variant in ("cm3", "dp_cm_inst"):
        case["pts"] = [animal() for _ in range(n_samples)]                      # (S, N, 2)
    elif variant in ("cm4", "dp_cm", "multi", "dp_multi"):
        case["pts"] = [animals() for _ in range(n_samples)]                     # (S, I, N, 2)
        case["n_nodes"] = n_nodes
    else:  # cent, dp_cent
        n_nodes = 1
        case["pts"] = [[a[0] for a in animals()] for _ in range(n_samples)]     # (S, I, 2)
    if variant in ("multi", "cent", "dp_cent"):
        case["num_instances"] = rng.choice([n_inst, n_inst, n_inst, max(n_inst - 1, 0), n_inst + 2, 0])
    return case


# ------------------------------------------------------------------ implementation
def to_tensor(pts, shape):
    import torch
    flat = []

    def walk(t):
        if isinstance(t, list):
            for u in t:
                walk(u)
        else:
            flat.append(float("nan") if t is None else t)
    walk(pts)
    return torch.tensor(np.array(flat, dtype=np.float64).reshape(shape), dtype=torch.float32)


def run_impl(case):
    import torch
    from sleap_nn.data import confidence_maps as cmod

    v, H, W, s, sg = case["variant"], case["H"], case["W"], case["stride"], case["sigma"]
    pts = case["pts"]
    S = len(pts)
    if v in ("cm3", "dp_cm_inst"):
        t = to_tensor(pts, (S, len(pts[0]), 2))
    elif v in ("cm4", "dp_cm", "multi", "dp_multi"):
        t = to_tensor(pts, (S, len(pts[0]), case["n_nodes"], 2))
    else:
        t = to_tensor(pts, (S, len(pts[0]), 2))
    before = t.clone()
    if v in ("cm3", "cm4"):
        r = call(cmod.generate_confmaps, t, (H, W), sigma=sg, output_stride=s)
    elif v == "multi":
        r = call(cmod.generate_multiconfmaps, t, (H, W), case["num_instances"], sigma=sg, output_stride=s,
                 is_centroids=False)
    elif v == "cent":
        r = call(cmod.generate_multiconfmaps, t, (H, W), case["num_instances"], sigma=sg, output_stride=s,
                 is_centroids=True)
    else:
        img = torch.zeros((1, 1, H, W))
        if v == "dp_cm":
            ex = {"image": img, "instances": t}
            dp = cmod.ConfidenceMapGenerator([ex], sigma=sg, output_stride=s)
            key = "confidence_maps"
        elif v == "dp_cm_inst":
            ex = {"instance_image": img, "instance": t}
            dp = cmod.ConfidenceMapGenerator([ex], sigma=sg, output_stride=s, image_key="instance_image",
                                             instance_key="instance")
            key = "confidence_maps"
        elif v == "dp_multi":
            ex = {"image": img, "instances": t}
            dp = cmod.MultiConfidenceMapGenerator([ex], sigma=sg, output_stride=s, centroids=False)
            key = "confidence_maps"
        else:
            ex = {"image": img, "centroids": t, "num_instances": case["num_instances"]}
            dp = cmod.MultiConfidenceMapGenerator([ex], sigma=sg, output_stride=s, centroids=True)
            key = "centroids_confidence_maps"
        r = call(lambda: list(dp)[0][key])
    if r[0] == "raise":
        return r
    if not torch.equal(torch.nan_to_num(before, nan=-12345.0), torch.nan_to_num(t, nan=-12345.0)):
        return ("raise", "InputMutated", "input tensor was modified")
    return ("ok", r[1].detach().cpu().numpy())


# ------------------------------------------------------------------ model side
def pt_str(p):
    return f"{rat(p[0])} {rat(p[1])}"


def channels_of(case):
    """Per-sample list of channels; a channel is the list of keypoints reduced (max) into it.
    This is the *property's* reading: sample `b` only sees its own animals."""
    v = case["variant"]
    out = []
    for smp in case["pts"]:
        if v in ("cm3", "dp_cm_inst"):
            out.append([[p] for p in smp])
        elif v in ("cm4", "dp_cm"):
            out.append([[p] for a in smp for p in a])
        elif v in ("multi", "dp_multi"):
            k = case["num_instances"] if v == "multi" else len(smp)
            out.append([[a[c] for a in smp[:k]] for c in range(case["n_nodes"])])
        else:
            out.append([[p for p in smp[: case["num_instances"]]]])
    return out


def model_lines(case):
    """One driver request per sample (None: outside the modelled region, oracle only)."""
    v = case["variant"]
    head = f"{rat(case['sigma'])} {case['stride']} {case['H']} {case['W']}"
    S = len(case["pts"])
    if v in ("multi", "cent") and S > 1:
        return None   # make_multi_confmaps mixes samples (F-C01): excluded region, oracle only
    lines = []
    for smp in case["pts"]:
        if v in ("cm3", "dp_cm_inst"):
            lines.append(f"cm {head} {len(smp)} " + " ".join(pt_str(p) for p in smp))
        elif v in ("cm4", "dp_cm"):
            flat = [p for a in smp for p in a]
            lines.append(f"cm {head} {len(flat)} " + " ".join(pt_str(p) for p in flat))
        elif v in ("multi", "dp_multi"):
            k = case["num_instances"] if v == "multi" else len(smp)
            flat = [p for a in smp for p in a]
            lines.append(f"multi {head} {k} {case['n_nodes']} {len(smp)} " + " ".join(pt_str(p) for p in flat))
        else:
            lines.append(f"cent {head} {case['num_instances']} {len(smp)} " + " ".join(pt_str(p) for p in smp))
    return [" ".join(l.split()) for l in lines]


def parse_model(line):
    if line == "error":
        raise RuntimeError("driver could not parse a request")
    shape, zs, am, vals = [part.strip() for part in (line + " ").split("|")]
    C, h, w, rect = [int(x) for x in shape.split()]
    zs = [int(x) for x in zs.split()]
    am = [int(x) for x in am.split()]
    vals = np.array([unrat(x) for x in vals.split()], dtype=np.float64).reshape(C, h, w) if C * h * w else \
        np.zeros((C, h, w))
    return {"shape": (C, h, w), "rect": rect, "nonzero": zs, "argmax": am, "vals": vals}


def compare(chk, case, b, impl_b, m):
    """impl_b: (C,h,w) numpy of sample b; m: parsed model reply.  Returns description of first mismatch."""
    if m["rect"] != 1:
        return "model map not rectangular"
    if tuple(impl_b.shape) != m["shape"]:
        return f"shape impl {tuple(impl_b.shape)} model {m['shape']}"
    if not np.isfinite(impl_b).all():
        return "non-finite value in implementation output"
    C, h, w = m["shape"]
    for c in range(C):
        ch = impl_b[c].astype(np.float64)
        if m["nonzero"][c] == 0:
            if np.any(ch != 0):
                return f"channel {c}: model all-zero, impl max {ch.max()}"
            continue
        d = np.abs(ch - m["vals"][c])
        chk.extra["max_abs_diff"] = max(chk.extra.get("max_abs_diff", 0.0), float(d.max()) if d.size else 0.0)
        if d.size and d.max() > TOL:
            i, j = np.unravel_index(int(np.argmax(d)), d.shape)
            return f"channel {c} cell ({i},{j}): impl {ch[i, j]!r} model {m['vals'][c][i, j]!r}"
        if h * w == 0:
            continue
        flat = m["vals"][c].ravel()
        a = m["argmax"][c]
        best = flat[a]
        second = np.max(np.delete(flat, a)) if flat.size > 1 else -np.inf
        if flat.size > 1 and best - second <= ARG_MARGIN:
            chk.knife_edges += 1
            continue
        if int(np.argmax(ch.ravel())) != a:
            return f"channel {c}: argmax impl {int(np.argmax(ch.ravel()))} model {a}"
    return None


# ------------------------------------------------------------------ property oracle (independent of the model)
def oracle(case, out):
    """C01 restated on the implementation's output, float64 brute force.  None if it holds."""
    H, W, s, sg = case["H"], case["W"], case["stride"], case["sigma"]
    h, w = math.ceil(H / s), math.ceil(W / s)
    chans = channels_of(case)
    S = len(chans)
    if out.ndim != 4 or out.shape[0] != S:
        return f"rank/batch: {out.shape}"
    gy = (np.arange(h) * s).reshape(-1, 1).astype(np.float64)
    gx = (np.arange(w) * s).reshape(1, -1).astype(np.float64)
    for b in range(S):
        if tuple(out.shape[1:]) != (len(chans[b]), h, w):
            return f"shape {tuple(out.shape)} expected (_, {len(chans[b])}, {h}, {w})"
        o = out[b].astype(np.float64)
        if not np.isfinite(o).all():
            return "NaN/inf in output"
        if o.size and (o.min() < 0 or o.max() > 1 + 1e-6):
            return f"value outside [0,1]: min {o.min()} max {o.max()}"
        for c, kps in enumerate(chans[b]):
            ref = np.zeros((h, w))
            for p in kps:
                if p[0] is None or p[1] is None:
                    continue
                x, y = float(np.float32(p[0])), float(np.float32(p[1]))
                ref = np.maximum(ref, np.exp(-((gx - x) ** 2 + (gy - y) ** 2) / (2.0 * (sg * s) ** 2)))
            vis = [p for p in kps if p[0] is not None and p[1] is not None]
            if not vis:
                if np.any(o[c] != 0):
                    return f"sample {b} channel {c}: no visible keypoint but max value {o[c].max()}"
                continue
            if h * w == 0:
                continue
            d = np.abs(o[c] - ref)
            if d.max() > TOL:
                i, j = np.unravel_index(int(np.argmax(d)), d.shape)
                return (f"sample {b} channel {c} cell (row {i}, col {j}): value {o[c][i, j]!r}, "
                        f"Gaussian of the distance gives {ref[i, j]!r}")
            flat = ref.ravel()
            a = int(np.argmax(flat))
            if flat.size > 1 and flat[a] - np.max(np.delete(flat, a)) > ARG_MARGIN and int(np.argmax(o[c].ravel())) != a:
                return f"sample {b} channel {c}: maximum at flat cell {int(np.argmax(o[c].ravel()))}, nearest cell is {a}"
    return None


def signatures(case):
    sig = []
    if case["variant"] in ("multi", "cent") and len(case["pts"]) > 1:
        sig.append(SIG_BATCH)
    return sig


def case_size(case):
    flat = []

    def walk(t):
        if isinstance(t, list) and (not t or isinstance(t[0], list) or len(t) != 2):
            for u in t:
                walk(u)
        else:
            flat.append(t)
    walk(case["pts"])
    nonint = sum(1 for p in flat for v in p if v is not None and v != round(v))
    return (len(flat), len(case["pts"]), case["H"] + case["W"], case["stride"], 0 if case["sigma"] == 1.0 else 1,
            nonint)


def shrink(case, still_fails):
    """Greedy structural shrink keeping `still_fails(case)` true; every accepted step strictly
    decreases `case_size` (lexicographic), so it terminates."""
    import copy
    cur = copy.deepcopy(case)
    changed = True
    while changed:
        changed = False
        cands = []
        v = cur["variant"]
        for b in range(len(cur["pts"])):          # drop an animal / node entry
            for k in range(len(cur["pts"][b])):
                c = copy.deepcopy(cur)
                # keep the batch rectangular: drop index k in every sample
                for bb in range(len(c["pts"])):
                    if k < len(c["pts"][bb]):
                        del c["pts"][bb][k]
                if "num_instances" in c:
                    c["num_instances"] = min(c["num_instances"], len(c["pts"][0]))
                cands.append(c)
        if len(cur["pts"]) > 1 and not signatures(cur):
            c = copy.deepcopy(cur); c["pts"] = c["pts"][:1]; cands.append(c)
        for key, small in (("H", [4, 8]), ("W", [4, 8]), ("stride", [1, 2]), ("sigma", [1.0])):
            for val in small:
                if cur[key] != val:
                    c = copy.deepcopy(cur); c[key] = val; cands.append(c)
        # snap coordinates to integers
        c = copy.deepcopy(cur)

        def snap(t):
            if isinstance(t, list):
                return [snap(u) for u in t]
            return None if t is None else float(round(t))
        c["pts"] = snap(c["pts"])
        if c != cur:
            cands.append(c)
        for c in cands:
            try:
                if case_size(c) < case_size(cur) and still_fails(c):
                    cur = c
                    changed = True
                    break
            except Exception:
                continue
    return cur


# ------------------------------------------------------------------ main
def case_key(case):
    return (case["variant"], case["H"], case["W"], case["stride"], case["sigma"],
            case.get("num_instances"), repr(case["pts"]))


def nontrivial(case):
    return any(p[0] is not None and p[1] is not None for ch_s in channels_of(case) for ch in ch_s for p in ch)


def tags_of(case):
    t = [case["variant"], f"stride{case['stride']}", f"samples{len(case['pts'])}"]
    t.append("divisible" if case["H"] % case["stride"] == 0 and case["W"] % case["stride"] == 0 else "non_divisible")
    flat = [p for ch_s in channels_of(case) for ch in ch_s for p in ch]
    if any(p[0] is None and p[1] is None for p in flat):
        t.append("nan_point")
    if any((p[0] is None) != (p[1] is None) for p in flat):
        t.append("half_nan_point")
    if any(p[0] is not None and p[1] is not None and not (0 <= p[0] < case["W"] and 0 <= p[1] < case["H"]) for p in flat):
        t.append("outside_point")
    if not flat:
        t.append("no_points")
    return t


def check_case(chk, case, model_replies):
    """Correspondence + oracle for one case.  Returns True when something was reported."""
    r = run_impl(case)
    reported = False
    if r[0] == "raise":
        chk.disagree("confidence maps: implementation raised where the model does not", case, list(r), "ok")
        chk.fail(f"C01: implementation raised {r[1]}: {r[2]}", case, list(r), signatures(case))
        return True
    out = r[1]
    if model_replies is not None:
        for b, line in enumerate(model_replies):
            why = compare(chk, case, b, out[b] if b < out.shape[0] else np.zeros(0), parse_model(line))
            if why:
                chk.disagree("generate_*confmaps == Confmaps model", case, why, "see case")
                reported = True
                break
        if out.shape[0] != len(model_replies):
            chk.disagree("generate_*confmaps batch size", case, list(out.shape), len(model_replies))
            reported = True
    else:
        chk.extra["excluded_region_cases"] = chk.extra.get("excluded_region_cases", 0) + 1
    why = oracle(case, out)
    if why:
        def still(c):
            rr = run_impl(c)
            return rr[0] == "ok" and oracle(c, rr[1]) is not None
        small = shrink(case, still)
        rr = run_impl(small)
        chk.fail("C01 fails on the implementation: " + (oracle(small, rr[1]) or why), small,
                 {"original_case": case, "why_original": why}, signatures(small))
        reported = True
    return reported


F_C01_WITNESS = {"variant": "multi", "H": 8, "W": 8, "stride": 1, "sigma": 1.0, "n_nodes": 1,
                 "num_instances": 1, "pts": [[[[1.0, 1.0]]], [[[5.0, 5.0]]]]}


def main(chk: Check):
    chk.build_and_audit()
    import_repo()
    rng = chk.rng
    np.random.seed(rng.randrange(2 ** 31))
    import torch
    torch.manual_seed(rng.randrange(2 ** 31))

    # ---- known finding replay (witness from known_findings/C01.json)
    for ent in chk.known:
        if ent["id"] == "F-C01":
            w = ent.get("witness") or F_C01_WITNESS
            r = run_impl(w)
            why = oracle(w, r[1]) if r[0] == "ok" else f"raised {r[1]}"
            chk.known_replay("F-C01", still_fails=why is not None, detail=str(why))

    # ---- fixed regression cases (suite example, borders, the proof's case splits)
    cases = [
        {"variant": "cm3", "H": 4, "W": 4, "stride": 1, "sigma": 1.0, "pts": [[[1.0, 1.0], [None, None]]]},
        {"variant": "cm3", "H": 5, "W": 7, "stride": 2, "sigma": 1.0, "pts": [[[None, 1.0], [2.0, 2.0]]]},
        {"variant": "cm4", "H": 7, "W": 5, "stride": 2, "sigma": 1.5, "n_nodes": 2,
         "pts": [[[[0.0, 6.0], [4.0, 0.0]], [[4.5, 6.5], [None, None]]]]},
        {"variant": "multi", "H": 8, "W": 12, "stride": 4, "sigma": 0.5, "n_nodes": 2, "num_instances": 1,
         "pts": [[[[1.0, 1.0], [8.0, 4.0]], [[11.0, 7.0], [2.0, 6.0]]]]},
        {"variant": "multi", "H": 8, "W": 8, "stride": 2, "sigma": 1.0, "n_nodes": 1, "num_instances": 0,
         "pts": [[[[1.0, 1.0]]]]},
        {"variant": "cent", "H": 9, "W": 9, "stride": 2, "sigma": 1.5, "num_instances": 2,
         "pts": [[[2.0, 2.0], [None, None], [6.0, 6.0]]]},
        {"variant": "dp_cent", "H": 8, "W": 8, "stride": 2, "sigma": 1.5, "num_instances": 1,
         "pts": [[[2.0, 3.0], [6.0, 6.0]]]},
        {"variant": "multi", "H": 6, "W": 6, "stride": 2, "sigma": 1.0, "n_nodes": 3, "num_instances": 0,
         "pts": [[]]},
    ]
    n_rand = chk.n(800, 8000)
    for k in range(n_rand):
        cases.append(gen_case(rng, VARIANTS[k % len(VARIANTS)]))

    lines, index = [], []
    for case in cases:
        ml = model_lines(case)
        if ml is None:
            index.append(None)
        else:
            index.append((len(lines), len(ml)))
            lines += ml
    replies = run_driver("C01.lean", lines)

    bad_cases = []
    for case, idx in zip(cases, index):
        rep = None if idx is None else replies[idx[0]: idx[0] + idx[1]]
        chk.case(case_key(case) if nontrivial(case) else None,
                 {k: case[k] for k in ("variant", "H", "W", "stride", "sigma")} | {"pts": case["pts"]},
                 tags=tags_of(case))
        if check_case(chk, case, rep) and not signatures(case):
            bad_cases.append(case)

    # ---- failing-input search around disagreements: same generator, parameters pinned, x20
    if chk.disagreements and not [f for f in chk.failing if not f["signatures"]]:
        extra = []
        for bc in bad_cases[:3]:
            for _ in range(20):
                extra.append(gen_case(rng, bc["variant"], pin={k: bc[k] for k in ("H", "W", "stride", "sigma")}))
        for case in extra:
            r = run_impl(case)
            if r[0] != "ok":
                continue
            chk.evaluations += 1
            if oracle(case, r[1]):
                check_case(chk, case, None)
                break


def replay(chk: Check, payload):
    import_repo()
    case = payload.get("case") or payload["disagreements"][0]["case"]
    ml = model_lines(case)
    rep = run_driver("C01.lean", ml) if ml else None
    chk.case(case_key(case))
    r = run_impl(case)
    print(f"replay case={case}\n impl={'raise ' + str(r[1:]) if r[0] == 'raise' else 'shape ' + str(r[1].shape)}"
          f"\n oracle={oracle(case, r[1]) if r[0] == 'ok' else None}")
    check_case(chk, case, rep)


if __name__ == "__main__":
    chk = Check(
        "C01", module="SleapVerif.Props.C01", theorems=THEOREMS,
        build_targets=["SleapVerif.Model.Proto", "SleapVerif.Model.Scalar", "SleapVerif.Model.Grid",
                       "SleapVerif.Model.Confmaps", "SleapVerif.Lemmas.Transc"],
        trusted=[
            "Lean 4.33 kernel + Mathlib; axioms ⊆ {propext, Classical.choice, Quot.sound} (audited per run)",
            "hand-written model Confmaps.lean/Grid.lean of confidence_maps.py + make_grid_vectors; tied to /repo by the "
            "correspondence on the explored inputs only",
            "exp enters as a parameter with the order laws of Lemmas/Transc.lean (instantiated at ℝ by realTransc)",
            f"float32 evaluation in torch stays within {TOL} of the float64 evaluation of the same expressions "
            "(measured: evidence max_abs_diff), NaN plumbing (nan_to_num) amounts to none ↦ 0 (checked exactly)",
            "torch.arange/reshape/broadcast/maximum index semantics (validated by the correspondence)",
        ],
        rule="8 entry points (generate_confmaps rank 3/4, generate_multiconfmaps, centroid variant, the two DataPipe "
             "classes in 4 configurations) x H,W in 1..64 (45% stride-multiples) x stride {1,2,4,8} x sigma "
             "{.5,1,1.5,2.5,5} x 0-4 animals x 1-5 nodes x coordinates on the k/16 lattice inside/on/outside the "
             "border (+5% arbitrary float32) x NaN patterns {none, one node, anchor, whole animal, one coordinate, all}; "
             "distinct = distinct (variant, sizes, stride, sigma, num_instances, points); trivial = no visible keypoint",
        assumptions=[
            "sigma > 0, stride >= 1, finite coordinates (infinite inputs are outside the property's quantifier)",
            "shape is ceil(H/stride) x ceil(W/stride); equals H/stride x W/stride when stride divides both "
            "(cm_shape_dvd) - the datasets only call it on stride-padded images",
            "multi/centroid variant with n_samples > 1 is outside the correspondence (F-C01: the max-reduction mixes "
            "samples); it is sampled and judged by the oracle only",
        ],
    )
    run_check(chk, main, replay)
