"""C03 — bottom-up inference reassembles exactly the labelled animals from ideal maps.

Model: lean/SleapVerif/Model/BottomUp.lean (+ Model/Grouping.lean, Model/Toposort.lean);
theorems: lean/SleapVerif/Props/C03.lean.

Correspondence: the REAL `BottomUpInferenceModel.forward` (hence the real `find_local_peaks`,
`PAFScorer.predict`, `make_line_subs`, `score_paf_lines`, `match_candidates_sample`,
`group_instances_sample`, the `/input_scale`, `/eff_scale` decode) driven with a stub network that
returns the repo's own `generate_multiconfmaps` / `generate_pafs` of the scaled scene, against the
Lean driver on the same tensors.  Recording wrappers (harness side only) observe the intermediate
values: `find_local_peaks` output, `make_line_subs` output, scipy's `linear_sum_assignment` answers.
Compared: candidate set and line subscripts exactly, line scores |Δ| ≤ 2e-5, instances as lists of
(node → peak index) exactly, coordinates rel 1e-5, instance scores 1e-4.

`reassembly_exact` assumes only: tree skeleton (any listing), C08's solver contract, H1, H2.  H1 (peak
stage) and H2 (score separation, `SepTable`) are analytic facts about Gaussians: MEASURED on every
scene from the real tensors and reported in the evidence.

Oracle (independent of the model): one predicted instance per visible-edge-connected group of ≥ 2
visible keypoints, those keypoints within half a confidence-map cell (in original-image coordinates),
NaN elsewhere, nothing else.
"""
from __future__ import annotations

import itertools
import json
import math
from fractions import Fraction

from common import Check, call, import_repo, lst, rat, run_check, run_driver, unrat

THEOREMS = [
    "SleapVerif.C03.line_subs_layout",
    "SleapVerif.C03.line_subs_reads_writer",
    "SleapVerif.C03.line_subs_in_bounds",
    "SleapVerif.C03.round_half_even_near",
    "SleapVerif.C03.penalty_range",
    "SleapVerif.C03.score_bounds",
    "SleapVerif.C03.score_ge_of_cells",
    "SleapVerif.C03.score_true_edge_eq",
    "SleapVerif.C03.decode_within_half_cell",
    "SleapVerif.C03.accepted_eq_true",
    "SleapVerif.C03.forced_assignment_counterexample",
    "SleapVerif.C03.fixed_separated_of_thresholds",
    "SleapVerif.C03.solver_contract_implies_stable",
    "SleapVerif.C03.grouping_reassembly",
    "SleapVerif.C03.reassembly_exact",
    "SleapVerif.C03.rows_exact",
    "SleapVerif.C03.empty_frame_no_instances",
    "SleapVerif.C03.coincident_pair_counterexample",
    "SleapVerif.C03.keepTop_all",
]

STRIDES = [(2, 4), (4, 8), (2, 2), (4, 4), (1, 2), (2, 8), (4, 2), (1, 1), (3, 3), (3, 6), (2, 6)]
TOL_SCORE = 2e-5
# Rounding knife edges.  The model reports for every rounded coordinate the margin |2·frac − 1| (twice its distance,
# in PAF-grid units, from the nearest half-integer).  The real code interpolates with float32 `linspace` values
# (relative error 2^-24 ≈ 6e-8): the un-rounded coordinate is off by ≤ |dst−src|·6e-8/stride ≤ 6e-5 grid units for
# extents up to 1000 px.  Decisions closer to a tie than TOL_GRID = 1e-4 grid units are knife edges: either
# neighbouring cell is accepted, they are counted (chk.knife_edges), and when the implementation lands on the other
# side than the Float run of the model the candidate's score and the sample's grouping are not compared.
TOL_GRID = Fraction(1, 10**4)
KNIFE = 2 * TOL_GRID


def cmp_subs(impl, model, margins):
    """compare subscripts point by point.  Returns (verdict, n_knife): verdict 'eq' (identical), 'knife' (differs
    only at knife-edge coordinates, by one cell) or 'diff'."""
    verdict, n_knife = "eq", 0
    for (ir, ic), (mr, mc), (gr, gc) in zip(impl, model, margins):
        for a, b, g in ((ir, mr, gr), (ic, mc, gc)):
            knife = g <= KNIFE
            n_knife += knife
            if a == b:
                continue
            if knife and abs(a - b) == 1:
                if verdict == "eq":
                    verdict = "knife"
            else:
                verdict = "diff"
    if len(impl) != len(model):
        verdict = "diff"
    return verdict, n_knife


# ------------------------------------------------------------------ generators
def random_tree(rng, n, shapes=("uniform", "path", "star", "bushy")):
    """random rooted tree on nodes 0..n-1 (random numbering), edges away from the root, random listing"""
    order = list(range(n))
    rng.shuffle(order)
    shape = rng.choice(list(shapes))
    edges = []
    for i in range(1, n):
        p = {"path": i - 1, "star": 0, "bushy": rng.randrange(max(0, i - 2), i)}.get(shape, rng.randrange(i))
        edges.append((order[p], order[i]))
    rng.shuffle(edges)
    return edges


def seg_dist(p, a, b):
    ax, ay = a; bx, by = b; px, py = p
    dx, dy = bx - ax, by - ay
    L2 = dx * dx + dy * dy
    t = 0.0 if L2 == 0 else max(0.0, min(1.0, ((px - ax) * dx + (py - ay) * dy) / L2))
    return math.hypot(ax + t * dx - px, ay + t * dy - py)


def segs_dist(a, b, c, d):
    """distance between segments ab and cd (they never cross in accepted layouts: crossing gives 0
    through the sampled points below)"""
    best = min(seg_dist(a, c, d), seg_dist(b, c, d), seg_dist(c, a, b), seg_dist(d, a, b))
    for k in range(1, 8):
        t = k / 8
        best = min(best, seg_dist((a[0] + t * (b[0] - a[0]), a[1] + t * (b[1] - a[1])), c, d))
    return best


def gen_scene(rng, big=False, crowded=False, empty=None, border_band=False, elongated=False):
    """A batch of frames in *network-input* pixel coordinates plus the decode parameters.
    `crowded`: 5 compact animals of 4-6 nodes on a 3x2 layout (≥ 17 peaks in a frame unless nodes
    are missing), input scale ≠ 1, some missing nodes.
    `elongated`: frame about 3x longer than wide (or wider than tall) with limbs up to 1.3 x max_edge_length
    (which is a quarter of the LONGER PAF side) along the long axis.
    `border_band`: animals are rooted next to the right / bottom border and their nodes may lie in the last PAF-stride
    band (beyond the last PAF grid coordinate, where the confidence-map grid still has cells); every animal keeps
    a node strictly inside the PAF grid (else `generate_pafs` drops it: C05's finding F-C05b).
    `empty` ∈ first | middle | last | all: batch of 2-4 frames in which that frame (all frames) has no visible
    keypoint at all — no animal, or animals whose nodes are all invisible."""
    if crowded:
        cs, ps = rng.choice([(2, 4), (2, 2), (1, 2)])
        n_nodes = rng.choice([4, 5, 6])
        edges = random_tree(rng, n_nodes, shapes=("star", "bushy"))
    else:
        cs, ps = rng.choice(STRIDES)
        n_nodes = rng.choice([2, 2, 3, 3, 4, 5, 6])
        edges = random_tree(rng, n_nodes)
    unit = max(cs, ps)
    sigma_c = rng.choice([1.0, 1.5, 2.0]) if not crowded else rng.choice([1.0, 1.5])
    D = 0.7072 * (ps + cs)
    sigma_p = rng.choice([1.4, 2.0]) * D * D
    band = 1.93 * math.sqrt(sigma_p)                      # PAF weight < 1e-3 beyond this distance
    sep = max(band + D + 1.0, 6.0 * sigma_c * cs)
    min_edge = max(2.0 * ps, 3.0 * cs, 4.0)
    if crowded:
        max_edge = min_edge + 3.0
        box = 2 * 2.6 * max_edge + sep + 2.0              # room for a depth ≤ 2..3 animal plus the gap
        Win = int(math.ceil((3 * box + 2 * unit + 8) / unit)) * unit + rng.randrange(0, unit)
        Hin = int(math.ceil((2 * box + 2 * unit + 8) / unit)) * unit + rng.randrange(0, unit)
        ratio = 0.25
    else:
        cells = rng.randrange(18, 33 if not big else 41)
        cells_w = rng.randrange(18, 33 if not big else 41)
        if elongated:
            cells, cells_w = rng.randrange(12, 17), rng.randrange(36, 45)
            if rng.random() < 0.5:
                cells, cells_w = cells_w, cells
        # keep the PAF tensor small enough for the line protocol
        while (cells * unit // ps) * (cells_w * unit // ps) * 2 * len(edges) > (16000 if not big else 40000):
            cells = max(12, cells - 2); cells_w = max(12, cells_w - 2)
        Hin, Win = cells * unit, cells_w * unit
        if not elongated and rng.random() < 0.5:      # image sizes that are no multiple of either stride
            Hin += rng.randrange(0, unit) if unit > 1 else 0
            Win += rng.randrange(0, unit) if unit > 1 else 0
        ratio = 0.25 if (elongated or rng.random() < 0.5) else rng.choice([0.15, 0.5, 1.0])
        max_len = ratio * max(-(-Hin // ps), -(-Win // ps), 2 * len(edges)) * ps
        if 1.3 * max_len < min_edge + 2.0:
            ratio = 0.25
            max_len = ratio * max(-(-Hin // ps), -(-Win // ps), 2 * len(edges)) * ps
        max_edge = max(min_edge + 2.0, min(1.3 * max_len, (0.45 if not elongated else 1.6) * min(Hin, Win)))
    B = rng.choice([1, 1, 2, 3]) if not crowded else rng.choice([1, 2])
    if empty:
        B = rng.choice([2, 3, 4]) if empty != "middle" else rng.choice([3, 4])
    p_miss = rng.choice([0.0, 0.0, 0.15, 0.3]) if not crowded else rng.choice([0.0, 0.1, 0.1])
    border = unit + 2.0
    hi_x, hi_y = Win - border - unit, Hin - border - unit          # upper bounds of keypoint coordinates
    if border_band:
        hi_x, hi_y = Win - cs - 0.75, Hin - cs - 0.75
    paf_last_x = ((Win + ps - 1) // ps - 1) * ps
    paf_last_y = ((Hin + ps - 1) // ps - 1) * ps
    frames = []
    for _ in range(B):
        want = rng.choice([1, 2, 3, 4, 5]) if not crowded else 5
        animals = []
        for _a in range(want):
            for _try in range(30 if not crowded else 60):
                # grow the animal from its root, node by node along the tree
                pts = {}
                root = next(u for u, _ in edges if all(v != u for _, v in edges))
                if crowded:
                    bx, by = _a % 3, _a // 3
                    pts[root] = (border + 4 + (bx + 0.5) * box + rng.uniform(-2, 2),
                                 border + 4 + (by + 0.5) * box + rng.uniform(-2, 2))
                elif border_band:
                    if rng.random() < 0.5:
                        pts[root] = (rng.uniform(max(border, paf_last_x - 0.5 * ps), hi_x), rng.uniform(border, hi_y))
                    else:
                        pts[root] = (rng.uniform(border, hi_x), rng.uniform(max(border, paf_last_y - 0.5 * ps), hi_y))
                else:
                    pts[root] = (rng.uniform(border, hi_x), rng.uniform(border, hi_y))
                todo = [root]
                ok = True
                while todo and ok:
                    u = todo.pop()
                    for (a, b) in edges:
                        if a == u:
                            for _t in range(12):
                                L = rng.uniform(min_edge, max_edge)
                                if elongated and rng.random() < 0.6:
                                    L = rng.uniform(0.85, 1.0) * max_edge
                                th = rng.uniform(0, 2 * math.pi)
                                q = (pts[u][0] + L * math.cos(th), pts[u][1] + L * math.sin(th))
                                if border <= q[0] <= hi_x and border <= q[1] <= hi_y:
                                    break
                            else:
                                ok = False
                                break
                            pts[b] = q
                            todo.append(b)
                if not ok:
                    continue
                # snap to the 1/4 lattice, away from confidence-map ties (half-cell positions)
                snapped = {}
                for k, (x, y) in pts.items():
                    fx, fy = Fraction(round(x * 4), 4), Fraction(round(y * 4), 4)
                    if (fx / cs) % 1 == Fraction(1, 2):
                        fx += Fraction(1, 4)
                    if (fy / cs) % 1 == Fraction(1, 2):
                        fy += Fraction(1, 4)
                    snapped[k] = (fx, fy)
                if any(math.hypot(float(snapped[a][0] - snapped[b][0]), float(snapped[a][1] - snapped[b][1])) < min_edge - 0.5
                       for a, b in edges):
                    continue
                fl = {k: (float(v[0]), float(v[1])) for k, v in snapped.items()}
                segs = [(fl[a], fl[b]) for a, b in edges]
                clash = False
                for other in animals:
                    osegs = [(other["fl"][a], other["fl"][b]) for a, b in edges]
                    if any(segs_dist(s[0], s[1], o[0], o[1]) < sep for s in segs for o in osegs):
                        clash = True
                        break
                if clash:
                    continue
                vis = {k: rng.random() >= p_miss for k in snapped}
                if border_band and not any(vis[k] and 0 < snapped[k][0] < paf_last_x and 0 < snapped[k][1] < paf_last_y
                                    for k in snapped):
                    continue
                animals.append({"pts": snapped, "fl": fl, "vis": vis})
                break
        frames.append([[(an["pts"][k] if an["vis"][k] else None) for k in range(n_nodes)] for an in animals])
    if empty:
        def blank():
            return [] if rng.random() < 0.5 else [[None] * n_nodes for _ in range(rng.choice([1, 2]))]
        idx = {"first": [0], "last": [B - 1], "middle": [rng.randrange(1, B - 1)] if B > 2 else [0],
               "all": list(range(B))}[empty]
        for i in idx:
            frames[i] = blank()
    scale = rng.choice([1.0, 1.0, 0.5, 0.75, 2.0, 0.625]) if not crowded else rng.choice([0.5, 0.75, 2.0, 0.625])
    effs = [rng.choice([1.0, 1.0, 0.5, 0.8, 0.625, 1.25]) for _ in range(B)]
    sc = {
        "cs": cs, "ps": ps, "n_nodes": n_nodes, "edges": edges, "Hin": Hin, "Win": Win,
        "sigma_c": sigma_c, "sigma_p": sigma_p, "frames": frames, "scale": scale, "effs": effs,
        "refinement": rng.choice([None, None, "integral", "integral", "local"]), "patch": rng.choice([3, 5]),
        "n_points": rng.choice([5, 7, 15]) if rng.random() < 0.3 else 10,
        "ratio": ratio, "weight": rng.choice([1.0, 1.0, 0.5]), "min_line": rng.choice([0.25, 0.25, 0.1, 0.4]),
        "min_peaks": 0, "threshold": rng.choice([0.2, 0.2, 0.1, 0.3]), **naming(rng, n_nodes),
    }
    return admit(sc)


def max_edge_length(sc):
    """`max_edge_length_ratio * max(pafs.shape[-1], [-2], [-3]) * pafs_stride` of the scene"""
    ps = sc["ps"]
    return sc["ratio"] * max(-(-sc["Hin"] // ps), -(-sc["Win"] // ps), 2 * len(sc["edges"])) * ps


def scene_tags(sc, b):
    fr = sc["frames"][b]
    ml = max_edge_length(sc)
    pen = any(an[u] is not None and an[v] is not None and
              math.hypot(float(an[u][0] - an[v][0]), float(an[u][1] - an[v][1])) > ml
              for an in fr for (u, v) in sc["edges"])
    cs, ps = sc["cs"], sc["ps"]
    srt = sc.get("names") is not None and sorted((sc["names"][u], sc["names"][v]) for u, v in sc["edges"]) == \
        [(sc["names"][u], sc["names"][v]) for u, v in sc["edges"]]
    return ["scorer_via_from_config" if sc.get("via_config") else "scorer_via_constructor",
            "admission_dropped_animals" if sc.get("admission_dropped") else "admission_kept_all",
            "edge_listing_alphabetical" if srt or sc.get("names") is None else "edge_listing_not_alphabetical",
            f"n_points={sc['n_points']}", f"weight={sc['weight']}", f"ratio={sc['ratio']}", f"min_line={sc['min_line']}",
            f"threshold={sc['threshold']}", f"eff={sc['effs'][b]}",
            f"patch={sc['patch']}" if sc["refinement"] == "integral" else "patch=n/a",
            "penalty_active" if pen else "penalty_inactive",
            "size_multiple_of_strides" if sc["Hin"] % max(cs, ps) == 0 and sc["Win"] % max(cs, ps) == 0
            else "size_not_multiple_of_strides",
            "stride_power_of_two" if (cs & (cs - 1)) == 0 and (ps & (ps - 1)) == 0 else "stride_not_power_of_two"]


def frac_json(sc):
    """JSON-able copy of a scene (Fractions as strings)"""
    out = dict(sc)
    out["frames"] = [[[None if p is None else [str(p[0]), str(p[1])] for p in an] for an in fr] for fr in sc["frames"]]
    return out


def unfrac_json(sc):
    out = dict(sc)
    out["edges"] = [tuple(e) for e in sc["edges"]]
    out["frames"] = [[[None if p is None else (Fraction(p[0]), Fraction(p[1])) for p in an] for an in fr]
                     for fr in sc["frames"]]
    return out


# ------------------------------------------------------------------ oracle (independent of the model)
def expected_groups(sc, b):
    """visible-edge-connected groups of ≥ 2 visible keypoints, in original-image coordinates"""
    s_e = Fraction(sc["scale"]) * Fraction(float(_f32(sc["effs"][b])))
    groups = []
    for an in sc["frames"][b]:
        parent = {k: k for k, p in enumerate(an) if p is not None}

        def find(x):
            while parent[x] != x:
                parent[x] = parent[parent[x]]
                x = parent[x]
            return x
        for (u, v) in sc["edges"]:
            if an[u] is not None and an[v] is not None:
                parent[find(u)] = find(v)
        comps = {}
        for k in parent:
            comps.setdefault(find(k), []).append(k)
        for c in comps.values():
            if len(c) >= 2:
                groups.append({k: (an[k][0] / s_e, an[k][1] / s_e) for k in c})
    return groups


def _f32(x):
    import numpy as np
    return np.float32(x)


def ideal_peak_value(sc, p_in):
    """value of the ideal confidence map at the grid cell nearest to the keypoint `p_in` (network-input
    coordinates): what `find_local_peaks` reports for that keypoint (also with integral refinement, which
    keeps the rough peak's value)"""
    cs = sc["cs"]
    ncx, ncy = (sc["Win"] + cs - 1) // cs, (sc["Hin"] + cs - 1) // cs
    x, y = float(p_in[0]), float(p_in[1])
    gx = min(max(math.floor(x / cs + 0.5), 0), ncx - 1) * cs
    gy = min(max(math.floor(y / cs + 0.5), 0), ncy - 1) * cs
    return math.exp(-((gx - x) ** 2 + (gy - y) ** 2) / (2.0 * (sc["sigma_c"] * cs) ** 2))


def oracle(sc, b, pred, vals=None):
    """pred: list of instances, each a list per node of (x, y) floats or None; vals: per instance per node the
    reported peak value (None = NaN).  Returns None or a reason."""
    exp = expected_groups(sc, b)
    s_e = sc["scale"] * float(_f32(sc["effs"][b]))
    tol = (sc["cs"] / 2.0) / s_e * (1 + 1e-4) + 1e-3
    if len(pred) != len(exp):
        return f"{len(pred)} instances predicted, {len(exp)} groups of ≥2 connected visible keypoints labelled"
    if vals is not None and len(vals) != len(pred):
        return f"pred_peak_values has {len(vals)} rows for {len(pred)} instances"
    used = set()
    for g in exp:
        hit = None
        for i, inst in enumerate(pred):
            if i in used:
                continue
            if {k for k, p in enumerate(inst) if p is not None} != set(g):
                continue
            if all(abs(inst[k][0] - float(g[k][0])) <= tol and abs(inst[k][1] - float(g[k][1])) <= tol for k in g):
                hit = i
                break
        if hit is None:
            return f"no predicted instance for the labelled group {sorted(g)} within {tol:.3f}px"
        used.add(hit)
        if vals is not None:
            row = vals[hit]
            if {k for k, v in enumerate(row) if v is not None} != set(g):
                return f"pred_peak_values NaN pattern {[v is not None for v in row]} differs from the keypoints {sorted(g)}"
            for k in g:
                want = ideal_peak_value(sc, (g[k][0] * Fraction(s_e), g[k][1] * Fraction(s_e)))
                if not abs(row[k] - want) <= 2e-4:
                    return (f"pred_peak_values of node {k} is {row[k]!r}, the confidence map has {want:.6f} at the cell "
                            f"nearest to the keypoint")
    return None


def canon_vals(t):
    return [[None if v != v else v for v in row] for row in t.tolist()]


def oracle_out(sc, b, out):
    """the property on the observable output of `forward` for sample b"""
    return oracle(sc, b, canon_pred(out["pred_instance_peaks"][b]), canon_vals(out["pred_peak_values"][b]))


# ------------------------------------------------------------------ implementation side
_FIXED = None


def tree_is_fixed():
    """Which matching does the tree under test have?  `match_candidates_sample` on a single NaN candidate raises
    `cost matrix is infeasible` on the pinned code (F-C08) and returns no match after `fixes/C08-infeasible.patch`
    (in /repo HEAD).  The model is run with the same variant (`fixed`), as harness/c08.py does."""
    global _FIXED
    if _FIXED is None:
        import torch
        from sleap_nn.inference.paf_grouping import match_candidates_sample
        r = call(match_candidates_sample, torch.tensor([0], dtype=torch.int32), torch.tensor([[0, 1]]),
                 torch.tensor([float("nan")]), 1)
        _FIXED = r[0] == "ok"
    return _FIXED


PART_NAMES = ["head", "thorax", "abdomen", "wingL", "wingR", "tail", "legL1", "legR1", "antenna", "eye"]


def naming(rng, n_nodes):
    """part names (random permutation of a pool, so that the edge listing is in general NOT alphabetically sorted)
    and whether the scorer is built through `PAFScorer.from_config` (as the predictors do) or the constructor"""
    return {"names": rng.sample(PART_NAMES, n_nodes), "via_config": rng.random() < 0.6}


class Recorder:
    def __init__(self):
        self.scorer_edges = None
        self.peaks = None
        self.subs = []
        self.lsa = []


def make_stub(torch, sc, gm, gp):
    class IdealBottomUpNet(torch.nn.Module):
        """returns the training targets of the repo for the scaled scene of each batch element"""

        def forward(self, x):
            B, _, H, W = x.shape
            assert (H, W) == (sc["Hin"], sc["Win"]) and B == len(sc["frames"])
            cms, pafs = [], []
            for b in range(B):
                fr = sc["frames"][b]
                if fr:
                    I = torch.tensor([[[float("nan")] * 2 if p is None else [float(p[0]), float(p[1])] for p in an]
                                      for an in fr], dtype=torch.float32)
                else:
                    I = torch.full((1, sc["n_nodes"], 2), float("nan"))
                cms.append(gm(I.unsqueeze(0), img_hw=(H, W), num_instances=I.shape[0], sigma=sc["sigma_c"],
                              output_stride=sc["cs"]))
                pafs.append(gp(I.unsqueeze(0), img_hw=(H, W), sigma=sc["sigma_p"], output_stride=sc["ps"],
                               edge_inds=torch.tensor(sc["edges"]), flatten_channels=True).unsqueeze(0))
            return {"MultiInstanceConfmapsHead": torch.cat(cms), "PartAffinityFieldsHead": torch.cat(pafs)}
    return IdealBottomUpNet()


def run_impl(sc, graph=True):
    """`graph=False`: the `return_paf_graph=False, return_pafs=False, return_confmaps=True` path of `forward`"""
    import numpy as np
    import torch
    import sleap_nn.inference.bottomup as bu
    import sleap_nn.inference.paf_grouping as pg
    from sleap_nn.data.confidence_maps import generate_multiconfmaps
    from sleap_nn.data.edge_maps import generate_pafs

    rec = Recorder()
    names = list(sc.get("names") or [f"n{i}" for i in range(sc["n_nodes"])])
    kw = dict(max_edge_length_ratio=sc["ratio"], dist_penalty_weight=sc["weight"], n_points=sc["n_points"],
              min_instance_peaks=sc["min_peaks"], min_line_scores=sc["min_line"])
    if sc.get("via_config"):
        # the way the predictors build it: `PAFScorer.from_config` on the head config (nested list configs)
        from omegaconf import OmegaConf
        cfg = OmegaConf.create({"confmaps": {"part_names": names},
                                "pafs": {"edges": [[names[u], names[v]] for u, v in sc["edges"]],
                                         "output_stride": sc["ps"]}})
        scorer = pg.PAFScorer.from_config(cfg, **kw)
    else:
        scorer = pg.PAFScorer(part_names=names, edges=[(names[u], names[v]) for u, v in sc["edges"]],
                              pafs_stride=sc["ps"], **kw)
    rec.scorer_edges = [tuple(int(x) for x in e) for e in scorer.edge_inds]
    model = bu.BottomUpInferenceModel(
        torch_model=make_stub(torch, sc, generate_multiconfmaps, generate_pafs), paf_scorer=scorer,
        cms_output_stride=sc["cs"], pafs_output_stride=sc["ps"], peak_threshold=sc["threshold"],
        refinement=sc["refinement"], integral_patch_size=sc["patch"], return_confmaps=not graph,
        return_pafs=graph, return_paf_graph=graph, input_scale=sc["scale"])

    o_flp, o_mls, o_lsa = bu.find_local_peaks, pg.make_line_subs, pg.linear_sum_assignment

    def w_flp(*a, **k):
        r = o_flp(*a, **k)
        rec.peaks = tuple(t.clone() for t in r)
        return r

    def w_mls(*a, **k):
        r = o_mls(*a, **k)
        rec.subs.append(r.clone())
        return r

    def w_lsa(C, *a, **k):
        try:
            r = o_lsa(C, *a, **k)
        except ValueError as e:
            rec.lsa.append((np.array(C, dtype=np.float64), None))
            raise e
        rec.lsa.append((np.array(C, dtype=np.float64), (list(map(int, r[0])), list(map(int, r[1])))))
        return r

    bu.find_local_peaks, pg.make_line_subs, pg.linear_sum_assignment = w_flp, w_mls, w_lsa
    try:
        B = len(sc["frames"])
        inputs = {"image": torch.zeros(B, 1, sc["Hin"], sc["Win"]),
                  "eff_scale": torch.tensor(sc["effs"], dtype=torch.float32)}
        res = call(lambda: model(inputs)[0])
    finally:
        bu.find_local_peaks, pg.make_line_subs, pg.linear_sum_assignment = o_flp, o_mls, o_lsa
    return res, rec


def canon_pred(t):
    """(n_inst, n_nodes, 2) tensor → list of lists of (x, y) | None; half-NaN points are reported as such"""
    out = []
    for inst in t.tolist():
        row = []
        for x, y in inst:
            if x != x and y != y:
                row.append(None)
            elif x != x or y != y:
                row.append(("half-nan", x, y))
            else:
                row.append((x, y))
        out.append(row)
    return out


# ------------------------------------------------------------------ measured hypotheses
def lsa_checks(C, ans):
    """scipy's answer on cost matrix C: valid, maximal, optimal (brute force), exchange-stable"""
    import numpy as np
    nr, nc = C.shape
    rows, cols = ans
    if len(set(rows)) != len(rows) or len(set(cols)) != len(cols) or len(rows) != min(nr, nc):
        return "not a maximum-cardinality assignment"
    tot = sum(C[i, j] for i, j in zip(rows, cols))
    if nr <= 5 and nc <= 5:
        small, big, transpose = (nr, nc, False) if nr <= nc else (nc, nr, True)
        best = min(sum((C[j, i] if transpose else C[i, j]) for i, j in enumerate(p))
                   for p in itertools.permutations(range(big), small))
        if tot > best + 1e-9:
            return f"not optimal: {tot} > {best}"
    M = list(zip(rows, cols))
    for (i, j), (i2, j2) in itertools.combinations(M, 2):
        if C[i, j] + C[i2, j2] > C[i, j2] + C[i2, j] + 1e-9:
            return "not 2-exchange stable"
    for (i, j) in M:
        for j2 in set(range(nc)) - set(cols):
            if C[i, j] > C[i, j2] + 1e-9:
                return "row could move to a free column"
        for i2 in set(range(nr)) - set(rows):
            if C[i, j] > C[i2, j] + 1e-9:
                return "column could move to a free row"
    return None


def measure_H(sc, b, peaks_img, ch, edge_inds, edge_peak_inds, scores):
    """H1 (peak stage) and H2 (score separation) measured on the real tensors of sample b.
    Returns (h1_ok, h1_margin, h2_ok, h2 dict, owner map peak → (animal, node))."""
    cs = sc["cs"]
    owner = {}
    h1_ok = True
    worst = 0.0
    vis = [(a, k, p) for a, an in enumerate(sc["frames"][b]) for k, p in enumerate(an) if p is not None]
    taken = set()
    for (a, k, p) in vis:
        c = [i for i in range(len(ch)) if ch[i] == k and i not in taken
             and abs(peaks_img[i][0] - float(p[0])) <= cs / 2 + 1e-4 and abs(peaks_img[i][1] - float(p[1])) <= cs / 2 + 1e-4]
        if len(c) != 1:
            h1_ok = False
            continue
        taken.add(c[0])
        owner[c[0]] = (a, k)
        worst = max(worst, abs(peaks_img[c[0]][0] - float(p[0])) / cs, abs(peaks_img[c[0]][1] - float(p[1])) / cs)
    if len(taken) != len(ch):
        h1_ok = False
    h2 = {"true_min": None, "false_max": None, "orphan_max": None, "dom": None, "exch": None}
    if not h1_ok:
        return h1_ok, worst, False, h2, owner
    true_s, false_s, orphan_s, dom, exch = [], [], [], [], []
    for e in range(len(sc["edges"])):
        idx = [i for i in range(len(edge_inds)) if edge_inds[i] == e]
        S = {(edge_peak_inds[i][0], edge_peak_inds[i][1]): scores[i] for i in idx}
        is_true = {k: owner[k[0]][0] == owner[k[1]][0] for k in S}
        rows_with_true = {k[0] for k in S if is_true[k]}
        cols_with_true = {k[1] for k in S if is_true[k]}
        for k, v in S.items():
            (true_s if is_true[k] else false_s).append(v)
            if k[0] not in rows_with_true and k[1] not in cols_with_true:
                orphan_s.append(v)
        for (i, j), t in S.items():
            if not is_true[(i, j)]:
                continue
            for (i2, j2), v in S.items():
                if (i2, j2) == (i, j):
                    continue
                if i2 == i or j2 == j:
                    dom.append(t - v)
                else:
                    exch.append(t + v - S[(i, j2)] - S[(i2, j)])
    h2["true_min"] = min(true_s) if true_s else None
    h2["false_max"] = max(false_s) if false_s else None
    h2["orphan_max"] = max(orphan_s) if orphan_s else None
    h2["dom"] = min(dom) if dom else None
    h2["exch"] = min(exch) if exch else None
    ok = ((not true_s or min(true_s) >= sc["min_line"]) and (not orphan_s or max(orphan_s) < sc["min_line"])
          and (not dom or min(dom) > 0) and (not exch or min(exch) > 0))
    return h1_ok, worst, ok, h2, owner


# ------------------------------------------------------------------ one scene through both sides
def scene_line(sc, b, paf_b, peaks_b, answers, ts32):
    e = sc["edges"]
    h, w, c = paf_b.shape
    flat = paf_b.reshape(-1).tolist()
    toks = ["sample", "1" if tree_is_fixed() else "0", str(sc["n_nodes"]), lst(e, lambda x: f"{x[0]} {x[1]}"), str(sc["cs"]), str(sc["ps"]),
            lst(ts32, rat), rat(sc["ratio"]), rat(sc["weight"]), rat(sc["min_line"]),
            f"i {sc['min_peaks']}", rat(sc["scale"]), rat(float(_f32(sc["effs"][b]))),
            str(h), str(w), str(c), " ".join(rat(v) for v in flat),
            lst(peaks_b, lambda p: f"{rat(p[0])} {rat(p[1])} {rat(p[2])} {p[3]}")]
    for a in answers:
        toks.append("r" if a is None else "m " + lst(list(zip(a[0], a[1])), lambda m: f"{m[0]} {m[1]}"))
    return " ".join(toks)


def parse_model(line, nT, n_nodes):
    secs = [s.strip().split() for s in line.split(" | ")]
    out = {"status": " ".join(secs[0])}
    for s in secs[1:]:
        out[s[0]] = s[1:]
    cands = []
    t = out.get("cand", ["0"])
    n = int(t[0])
    for i in range(n):
        e, s, d, sc_ = t[1 + 4 * i: 5 + 4 * i]
        cands.append({"key": (int(e), int(s), int(d)), "score": unrat(sc_)})
    f = out.get("fsubs", [])
    r = out.get("rsubs", [])
    for i in range(n):
        blk = f[i * (2 + 2 * nT):(i + 1) * (2 + 2 * nT)]
        cands[i]["ch"] = (int(blk[0]), int(blk[1]))
        cands[i]["fsubs"] = [(int(blk[2 + 2 * k]), int(blk[3 + 2 * k])) for k in range(nT)]
        blk = r[i * 4 * nT:(i + 1) * 4 * nT]
        cands[i]["rsubs"] = [(int(blk[4 * k]), int(blk[4 * k + 1])) for k in range(nT)]
        cands[i]["margins"] = [(unrat(blk[4 * k + 2]), unrat(blk[4 * k + 3])) for k in range(nT)]
    out["cands"] = cands
    if out["status"] == "ok":
        t = out["conn"]
        out["conns"] = [((int(t[1 + 5 * i]), int(t[2 + 5 * i])), (int(t[3 + 5 * i]), int(t[4 + 5 * i])))
                        for i in range(int(t[0]))]
        t = out["inst"]
        ni = int(t[0])
        rows, scores = [], []
        for i in range(ni):
            blk = t[1 + i * (n_nodes + 1): 1 + (i + 1) * (n_nodes + 1)]
            rows.append([None if int(x) < 0 else int(x) for x in blk[:n_nodes]])
            scores.append(unrat(blk[n_nodes]))
        out["rows"], out["iscores"] = rows, scores
        t = out["coords"]
        coords = []
        for i in range(ni):
            row = []
            for k in range(n_nodes):
                x, y = t[(i * n_nodes + k) * 2], t[(i * n_nodes + k) * 2 + 1]
                row.append(None if x == "nan" else (unrat(x), unrat(y)))
            coords.append(row)
        out["coordrows"] = coords
        t = out["vals"]
        out["valrows"] = [[unrat(t[i * n_nodes + k]) for k in range(n_nodes)] for i in range(ni)]
    return out


def impl_phase(chk, sc):
    """Run the implementation on one scene; returns a context with the driver lines, or None after
    reporting (the model never raises on these scenes: scipy infeasibility needs coincident peaks)."""
    import torch
    res, rec = run_impl(sc)
    B = len(sc["frames"])
    if res[0] == "raise":
        chk.disagree("forward raises", frac_json(sc), f"raise:{res[1]}: {res[2]}", "ok")
        return {"sc": sc, "raised": f"forward raised {res[1]}: {res[2]}", "lines": []}
    out = res[1]
    if rec.scorer_edges != [tuple(e) for e in sc["edges"]]:
        chk.disagree("PAFScorer.edge_inds == the listed edges (edge k ↔ PAF channels 2k, 2k+1)", frac_json(sc),
                     rec.scorer_edges, [tuple(e) for e in sc["edges"]])
    nT = sc["n_points"]
    ts32 = [float(x) for x in torch.linspace(0, 1, steps=nT)]
    g, vals, sinds, chans = rec.peaks
    nE = len(sc["edges"])
    lines, ctx = [], []
    if len(rec.lsa) != B * nE:
        chk.disagree("number of linear_sum_assignment calls", frac_json(sc), len(rec.lsa), B * nE)
        return {"sc": sc, "raised": None, "lines": [], "skip": True}
    for b in range(B):
        sel = (sinds == b).nonzero(as_tuple=True)[0].tolist()
        peaks_b = [(float(g[i][0]), float(g[i][1]), float(vals[i]), int(chans[i])) for i in sel]
        paf_b = out["pred_part_affinity_fields"][b]
        lsa_b = rec.lsa[b * nE:(b + 1) * nE]
        lines.append(scene_line(sc, b, paf_b, peaks_b, [a for _, a in lsa_b], ts32))
        ctx.append((peaks_b, lsa_b))
    keep = {k: out[k] for k in ("pred_instance_peaks", "pred_peak_values", "edge_inds", "edge_peak_inds", "line_scores",
                                "instance_scores")}
    return {"sc": sc, "raised": None, "lines": lines, "ctx": ctx, "out": keep, "subs": rec.subs, "nT": nT}


def process_scene(chk, sc, tag, stats, do_case=True):
    c = impl_phase(chk, sc)
    return compare_phase(chk, c, run_driver("C03.lean", c["lines"]), tag, stats, do_case)


def compare_phase(chk, c, model, tag, stats, do_case=True):
    """Compare implementation and model on one scene; returns list of (b, reason) oracle failures."""
    sc = c["sc"]
    if c.get("raised"):
        return [(0, c["raised"])]
    if c.get("skip"):
        return []
    failures = []
    B = len(sc["frames"])
    ctx, out, nT = c["ctx"], c["out"], c["nT"]
    rec_subs = c["subs"]
    _pp = out["pred_instance_peaks"]
    n_out = int(_pp.size(0)) if hasattr(_pp, "size") and callable(_pp.size) else len(_pp)
    if n_out != B:
        # added after C03-r9m1 (frames without a grouped instance dropped from the output): a direct failing input
        # instead of an IndexError further down (which was reported as no-failing-input-found)
        chk.case(None, tags=["batch_output_length_differs"])
        chk.fail(f"C03 fails on BottomUpInferenceModel.forward ({tag}): a batch of {B} frames came back with {n_out} "
                 "entries in pred_instance_peaks (every later frame's animals are reported under an earlier frame)",
                 {"scene": frac_json(sc)}, {"frames": B, "entries": n_out,
                                           "groups_expected_per_frame": [len(expected_groups(sc, b)) for b in range(B)]},
                 [])
        return []
    for b in range(B):
        peaks_b, lsa_b = ctx[b]
        m = parse_model(model[b], nT, sc["n_nodes"])
        case = {"scene": frac_json(sc), "sample": b}
        pred = canon_pred(out["pred_instance_peaks"][b])
        n_vis = sum(p is not None for an in sc["frames"][b] for p in an)
        exp_n = len(expected_groups(sc, b))
        if do_case:
            key = (tag, sc["cs"], sc["ps"], sc["n_nodes"], tuple(sc["edges"]), len(sc["frames"][b]), n_vis, exp_n,
                   sc["scale"], sc["effs"][b], sc["refinement"], nT) if n_vis >= 2 else None
            chk.case(key, {"tag": tag, "strides": (sc["cs"], sc["ps"]), "edges": sc["edges"], "animals": len(sc["frames"][b]),
                           "visible": n_vis, "groups": exp_n, "scale": sc["scale"], "eff": sc["effs"][b],
                           "pred_instances": len(pred), "model": m["status"]},
                     tags=[tag, f"strides={sc['cs']},{sc['ps']}", f"nodes={sc['n_nodes']}", f"animals={len(sc['frames'][b])}",
                           f"groups={exp_n}", f"refine={sc['refinement']}", f"batch={B}", f"scale={sc['scale']}",
                           "missing" if any(p is None for an in sc["frames"][b] for p in an) else "complete"]
                     + scene_tags(sc, b)
                     + (["sample_without_peaks"] if n_vis == 0 else []))
        bad = False
        knife_sample = False
        # -- (1) candidates, subscripts, scores
        ei = out["edge_inds"][b].tolist()
        epi = out["edge_peak_inds"][b].tolist()
        ls = out["line_scores"][b].tolist()
        subs_t = rec_subs[b]
        impl_c = {(ei[i], epi[i][0], epi[i][1]): i for i in range(len(ei))}
        mod_c = {c["key"]: c for c in m["cands"]}
        if set(impl_c) != set(mod_c) or len(impl_c) != len(ei):
            chk.disagree("get_connection_candidates == Grouping.candidates", case, sorted(impl_c), sorted(mod_c))
            bad = True
        else:
            for k, i in impl_c.items():
                mc = mod_c[k]
                isub = [(int(subs_t[i, p, 0, 0]), int(subs_t[i, p, 0, 1])) for p in range(nT)]
                ich = sorted({(int(subs_t[i, p, 0, 2]), int(subs_t[i, p, 1, 2])) for p in range(nT)}) if nT else []
                same_rc = all(int(subs_t[i, p, 0, 0]) == int(subs_t[i, p, 1, 0]) and int(subs_t[i, p, 0, 1]) == int(subs_t[i, p, 1, 1])
                              for p in range(nT))
                vf, n_knife = cmp_subs(isub, mc["fsubs"], mc["margins"])
                vq, _ = cmp_subs(isub, mc["rsubs"], mc["margins"])
                chk.knife_edges += n_knife
                if vf == "diff" or (nT and ich != [mc["ch"]]) or not same_rc:
                    chk.disagree("make_line_subs == BottomUp.lineSubs (Float run)", {**case, "cand": k},
                                 {"subs": isub, "ch": ich}, {"subs": mc["fsubs"], "ch": mc["ch"]})
                    bad = True
                    break
                if vq == "diff":
                    chk.disagree("make_line_subs == BottomUp.lineSubs (exact run)", {**case, "cand": k}, isub, mc["rsubs"])
                    bad = True
                    break
                if vf == "knife":
                    # the implementation sampled the neighbouring cell at a knife edge: the model's score for this
                    # candidate (and what follows from it) is about another cell — not compared
                    knife_sample = True
                    stats["knife_candidates"] += 1
                    continue
                if ls[i] != ls[i] and mc["score"] != mc["score"]:
                    stats["nan_scores"] += 1          # NaN on both sides (coincident source and destination peak)
                    continue
                if not (abs(ls[i] - mc["score"]) <= TOL_SCORE):
                    chk.disagree("score_paf_lines == BottomUp.lineScore", {**case, "cand": k}, ls[i], mc["score"])
                    bad = True
                    break
                stats["score_err"] = max(stats["score_err"], abs(ls[i] - mc["score"]))
        # -- (2) scipy contract on its recorded answers (parameter of the model)
        for (C, a) in lsa_b:
            if a is None:
                continue
            if C.size and not (C < float("inf")).all():
                continue
            why = lsa_checks(C, a) if C.size else None
            if why:
                chk.disagree("scipy linear_sum_assignment contract (LsaStable)", case, why, "stable optimum")
                bad = True
        # -- (3) instances
        if m["status"] != "ok":
            chk.disagree("forward ok vs model", case, "ok", m["status"])
            bad = True
        elif knife_sample:
            stats["knife_samples"] += 1
        elif not bad:
            s_e = sc["scale"] * float(_f32(sc["effs"][b]))
            dec = [(p[0] * sc["cs"] / s_e, p[1] * sc["cs"] / s_e) for p in peaks_b]
            impl_rows = []
            for inst in pred:
                row = []
                for k, p in enumerate(inst):
                    if p is None:
                        row.append(None)
                        continue
                    if p[0] == "half-nan":
                        row.append("half-nan")
                        continue
                    cand = [(abs(dec[i][0] - p[0]) + abs(dec[i][1] - p[1]), i) for i in range(len(peaks_b)) if peaks_b[i][3] == k]
                    d, i = min(cand) if cand else (float("inf"), -1)
                    row.append(i if d <= 1e-3 * (1 + abs(p[0]) + abs(p[1])) else ("unmapped", p))
                impl_rows.append(row)
            if impl_rows != m["rows"]:
                chk.disagree("instances (node → peak index), in order", case, impl_rows, m["rows"])
                bad = True
            else:
                for inst, crow in zip(pred, m["coordrows"]):
                    for p, q in zip(inst, crow):
                        if (p is None) != (q is None) or (p is not None and (
                                abs(p[0] - float(q[0])) > 1e-5 * abs(float(q[0])) + 1e-4 or
                                abs(p[1] - float(q[1])) > 1e-5 * abs(float(q[1])) + 1e-4)):
                            chk.disagree("decode: peak*cms_stride/input_scale/eff_scale", case, p,
                                         None if q is None else (float(q[0]), float(q[1])))
                            bad = True
                ivals = canon_vals(out["pred_peak_values"][b])
                mvals = [[None if v is None else float(v) for v in row] for row in m["valrows"]]
                if ivals != mvals:
                    chk.disagree("pred_peak_values == value of the assigned peak (BottomUp.rowVals)", case, ivals, mvals)
                    bad = True
                isc = out["instance_scores"][b].tolist()
                if len(isc) != len(m["iscores"]) or any(abs(x - y) > 1e-4 for x, y in zip(isc, m["iscores"])):
                    chk.disagree("instance scores", case, isc, m["iscores"])
                    bad = True
        # -- (4) measured hypotheses of reassembly_exact
        peaks_img = [(p[0] * sc["cs"], p[1] * sc["cs"]) for p in peaks_b]
        chs = [p[3] for p in peaks_b]
        h1, h1m, h2, h2d, owner = measure_H(sc, b, peaks_img, chs, ei, epi, ls)
        # H2 (`SepTable.valid`): no NaN / inf cell in the matrices handed to the solver
        if h2 and not all(bool((C < float("inf")).all()) for C, _ in lsa_b if C.size):
            h2 = False
        stats["scenes"] += 1
        stats["H1"] += h1
        stats["H2"] += h2
        stats["h1_worst_cells"] = max(stats["h1_worst_cells"], h1m)
        for k in ("true_min", "dom", "exch"):
            if h2d[k] is not None:
                stats[k] = h2d[k] if stats[k] is None else min(stats[k], h2d[k])
        for k in ("false_max", "orphan_max"):
            if h2d[k] is not None:
                stats[k] = h2d[k] if stats[k] is None else max(stats[k], h2d[k])
        # -- (5) the property itself on the implementation output
        why = oracle(sc, b, pred, canon_vals(out["pred_peak_values"][b]))
        if why:
            failures.append((b, why))
            stats["oracle_fail_H"].append({"H1": h1, "H2": h2})
    return failures


def shrink(chk, sc, b, stats):
    """smallest sub-scene (one frame, fewer animals) on which the oracle still fails"""
    cur = dict(sc)
    cur["frames"] = [sc["frames"][b]]
    cur["effs"] = [sc["effs"][b]]
    dummy = {k: (list(v) if isinstance(v, list) else v) for k, v in stats.items()}
    try:
        if not fails_only(cur, dummy):
            return sc, b
        changed = True
        while changed and len(cur["frames"][0]) > 1:
            changed = False
            for i in range(len(cur["frames"][0])):
                t = dict(cur)
                t["frames"] = [cur["frames"][0][:i] + cur["frames"][0][i + 1:]]
                if fails_only(t, dummy):
                    cur, changed = t, True
                    break
    except Exception:
        return sc, b
    return cur, 0


def fails_only(sc, stats):
    res, _ = run_impl(sc)
    if res[0] == "raise":
        return True
    return any(oracle_out(sc, b, res[1]) for b in range(len(sc["frames"])))


def only_missing_edges(sc, b, pred, bad_types):
    """effect part of the signatures: nothing foreign or garbled is returned (every predicted instance is a subset
    of one labelled group, coordinates within tolerance) and every labelled group that is not returned exactly
    contains a visible edge of one of the edge types `bad_types`"""
    exp = expected_groups(sc, b)
    s_e = sc["scale"] * float(_f32(sc["effs"][b]))
    tol = (sc["cs"] / 2.0) / s_e * (1 + 1e-4) + 1e-3
    exact = set()
    for inst in pred:
        vis = {k for k, p in enumerate(inst) if p is not None}
        hit = None
        for gi, g in enumerate(exp):
            if vis <= set(g) and all(abs(inst[k][0] - float(g[k][0])) <= tol and abs(inst[k][1] - float(g[k][1])) <= tol
                                     for k in vis):
                hit = gi
                if vis == set(g):
                    exact.add(gi)
                break
        if hit is None:
            return False
    for gi, g in enumerate(exp):
        if gi not in exact and not any(u in g and v in g for (u, v) in bad_types):
            return False
    return True


def only_regrouped(sc, b, pred, nodes):
    """effect part of F-C03c: every returned keypoint is a labelled visible keypoint of that node type (within
    tolerance; nothing invented or displaced — only the grouping differs) and every labelled group that is not returned
    exactly contains one of the node types `nodes` of the affected edge type"""
    s_e = sc["scale"] * float(_f32(sc["effs"][b]))
    tol = (sc["cs"] / 2.0) / s_e * (1 + 1e-4) + 1e-3
    fr = sc["frames"][b]
    for inst in pred:
        for k, p in enumerate(inst):
            if p is None:
                continue
            if p[0] == "half-nan" or not any(an[k] is not None and abs(p[0] - float(an[k][0]) / s_e) <= tol
                                             and abs(p[1] - float(an[k][1]) / s_e) <= tol for an in fr):
                return False
    for g in expected_groups(sc, b):
        exact = any({k for k, p in enumerate(inst) if p is not None} == set(g) and
                    all(abs(inst[k][0] - float(g[k][0])) <= tol and abs(inst[k][1] - float(g[k][1])) <= tol for k in g)
                    for inst in pred)
        if not exact and not (set(g) & nodes):
            return False
    return True


def signatures(sc, b):
    """structural predicates of a (shrunk) failing case, matched against known findings.  Each is *geometric*
    (computed from the labels of the scene, not from the scores of the tree under test) plus the narrow *effect*
    `only_missing_edges` on the implementation's output."""
    sigs = []
    cs = sc["cs"]
    fr = sc["frames"][b]
    for an in fr:
        for p in an:
            if p is not None and ((p[0] / cs) % 1 == Fraction(1, 2) or (p[1] / cs) % 1 == Fraction(1, 2)):
                sigs.append("tied_confmap_cells")
    ml = max_edge_length(sc)
    # F-C03: a true edge longer than max_edge_length, plus an orphan source and an orphan destination peak of
    # that edge type in the frame
    forced = [(u, v) for (u, v) in sc["edges"]
              if any(an[u] is not None and an[v] is not None and
                     math.hypot(float(an[u][0] - an[v][0]), float(an[u][1] - an[v][1])) > ml for an in fr)
              and any(an[u] is not None and an[v] is None for an in fr)
              and any(an[u] is None and an[v] is not None for an in fr)]
    # F-C03b: a connected pair of visible keypoints of one animal in the same confidence-map cell (one NaN candidate)

    def cell(p):
        return (math.floor(float(p[0]) / cs + 0.5), math.floor(float(p[1]) / cs + 0.5))
    coinc = [(u, v) for (u, v) in sc["edges"]
             if any(an[u] is not None and an[v] is not None and cell(an[u]) == cell(an[v]) for an in fr)]
    # F-C03c: the geometry-only predicted scores violate the exchange clause of H2 for a true pair against an orphan
    # source and an orphan destination peak (two mediocre candidates out-score the true pair plus the orphan pair)
    viol = {k for (k, cl) in (predicted_H2_all(sc, fr, ADMIT_MARGIN) if fr else []) if cl == "exchange_orphans"}
    if viol:
        try:
            res, _ = run_impl(sc)
            if res[0] == "ok":
                nodes = {x for k in viol for x in sc["edges"][k]}
                if only_regrouped(sc, b, canon_pred(res[1]["pred_instance_peaks"][b]), nodes):
                    sigs.append("predicted_exchange_violation_with_orphans")
        except Exception:
            pass
    if forced or coinc:
        try:
            res, _ = run_impl(sc)
            if res[0] == "ok":
                pred = canon_pred(res[1]["pred_instance_peaks"][b])
                if forced and only_missing_edges(sc, b, pred, forced):
                    sigs.append("long_edge_with_orphan_src_and_dst")
                if coinc and only_missing_edges(sc, b, pred, coinc):
                    sigs.append("coincident_connected_pair")
        except Exception:
            pass
    return sorted(set(sigs))


def predicted_scores(sc, fr):
    """Geometry-only prediction of the line score of EVERY connection candidate of a frame (no implementation code):
    peaks = visible keypoints snapped to the confidence-map grid, sampling by `round(point / paf_stride)` clipped to
    the PAF grid, PAF at a grid node = Σ over the animals that have the limb of `exp(-d^4 / 2σ²)·unit(limb)`, mean of
    the projections on the candidate's direction, plus the distance penalty.
    Returns {edge index: {(animal of src, animal of dst): score}}."""
    cs, ps, sig = sc["cs"], sc["ps"], sc["sigma_p"]
    nx, ny = -(-sc["Win"] // ps), -(-sc["Hin"] // ps)
    n = sc["n_points"]
    ml = max_edge_length(sc)

    def snap(p):
        return (math.floor(float(p[0]) / cs + 0.5) * cs, math.floor(float(p[1]) / cs + 0.5) * cs)
    out = {}
    for k, (u, v) in enumerate(sc["edges"]):
        limbs = []
        for an in fr:
            if an[u] is not None and an[v] is not None:
                A = (float(an[u][0]), float(an[u][1])); B = (float(an[v][0]), float(an[v][1]))
                L = math.hypot(B[0] - A[0], B[1] - A[1])
                if L > 0:
                    limbs.append((A, B, ((B[0] - A[0]) / L, (B[1] - A[1]) / L)))
        tab = {}
        for i, a in enumerate(fr):
            if a[u] is None:
                continue
            for j, b in enumerate(fr):
                if b[v] is None:
                    continue
                P, Q = snap(a[u]), snap(b[v])
                dx, dy = Q[0] - P[0], Q[1] - P[1]
                L = math.hypot(dx, dy)
                if L == 0:
                    tab[(i, j)] = float("nan")
                    continue
                tot = 0.0
                for t in range(n):
                    tt = t / (n - 1) if n > 1 else 0.0
                    gx = min(max(round((P[0] + dx * tt) / ps), 0), nx - 1) * ps
                    gy = min(max(round((P[1] + dy * tt) / ps), 0), ny - 1) * ps
                    for (A, B, un) in limbs:
                        d = seg_dist((gx, gy), A, B)
                        tot += math.exp(-d ** 4 / (2.0 * sig * sig)) * (un[0] * dx + un[1] * dy) / L
                tab[(i, j)] = tot / n + min(ml / L - 1.0, 0.0) * sc["weight"]
        out[k] = tab
    return out


def predicted_H2_all(sc, fr, margin):
    """all violations (edge index, clause) of H2 (`Separated`) on the geometry-only predicted scores, each clause
    required with the safety margin `margin`"""
    ml_ = sc["min_line"]
    out = []
    for k, tab in predicted_scores(sc, fr).items():
        if any(v != v for v in tab.values()):
            out.append((k, "nan"))
            continue
        true = {ij for ij in tab if ij[0] == ij[1]}
        rows_t = {i for i, _ in true}
        cols_t = {j for _, j in true}
        for (i, j), v in tab.items():
            if (i, j) in true:
                if v < ml_ + margin:
                    out.append((k, "true_low"))
            elif i not in rows_t and j not in cols_t and v >= ml_ - margin:
                out.append((k, "orphan_high"))
        for (i, j) in true:
            t = tab[(i, j)]
            for (i2, j2), v in tab.items():
                if (i2, j2) == (i, j):
                    continue
                if i2 == i or j2 == j:
                    if t - v <= margin:
                        out.append((k, "dominance"))
                elif t + v - tab[(i, j2)] - tab[(i2, j)] <= margin:
                    out.append((k, "exchange_orphans" if i2 not in rows_t and j2 not in cols_t else "exchange"))
    return out


def predicted_H2(sc, fr, margin):
    """H2 evaluated on the geometry-only predicted scores with a safety margin: None when it holds, else the first
    violation (edge index, clause).  This is the admission test of the generators: the property is claimed on the
    region where ideal maps separate the candidates; the complement is sampled through the known-finding families."""
    v = predicted_H2_all(sc, fr, margin)
    return v[0] if v else None


ADMIT_MARGIN = 0.1


def admit(sc):
    """Admission test of the generated scenes: animals are dropped from a frame (last first) until the geometry-only
    prediction says H2 holds with margin `ADMIT_MARGIN` for every edge type (`predicted_H2`).  The property is claimed
    on this region; its complement (assignment findings F-C03, F-C03b, F-C03c) is sampled by the excluded-region
    families."""
    dropped = 0
    for fr in sc["frames"]:
        while fr and predicted_H2(sc, fr, ADMIT_MARGIN) is not None:
            fr.pop()
            dropped += 1
    sc["admission_dropped"] = dropped
    return sc


def expected_true_score(sc, A, B, refined):
    """Line score the unchanged sampling rule gives the correct pair of a limb A→B (network-input coordinates), from
    the geometry alone: peaks = keypoints snapped to the confidence-map grid (`refined=False`) or the keypoints
    themselves (`refined=True`), sample cells by `round(point / paf_stride)`, PAF weight `exp(-d^4 / (2 sigma^2))` of
    the distance of the sampled grid node from the limb, plus the distance penalty.  Used only to keep the
    coarse-stride / narrow-PAF family inside the region where the property is expected to hold."""
    cs, ps, sig = sc["cs"], sc["ps"], sc["sigma_p"]
    nx, ny = -(-sc["Win"] // ps), -(-sc["Hin"] // ps)
    if refined:
        PA, PB = A, B
    else:
        PA = tuple(math.floor(v / cs + 0.5) * cs for v in A)
        PB = tuple(math.floor(v / cs + 0.5) * cs for v in B)
    n = sc["n_points"]
    tot = 0.0
    ux, uy = B[0] - A[0], B[1] - A[1]
    vx, vy = PB[0] - PA[0], PB[1] - PA[1]
    cosang = (ux * vx + uy * vy) / (math.hypot(ux, uy) * math.hypot(vx, vy))
    for k in range(n):
        t = k / (n - 1)
        x, y = PA[0] + vx * t, PA[1] + vy * t
        gx = min(max(round(x / ps), 0), nx - 1) * ps
        gy = min(max(round(y / ps), 0), ny - 1) * ps
        d = seg_dist((gx, gy), A, B)
        tot += math.exp(-d ** 4 / (2.0 * sig * sig)) * cosang
    L = math.hypot(vx, vy)
    pen = min(max_edge_length(sc) / L - 1.0, 0.0) * sc["weight"]
    return tot / n + pen


def gen_coarse_family(rng):
    """Coarse PAF stride (8, 16) with PAFs about one PAF cell wide (sigma ∈ {0.75, 1, ~2} x stride; 15 px = the project
    default at stride 8) and limbs (nearly) parallel to an image axis whose cross-axis coordinate sits just below a
    PAF grid line (≡ stride-1, stride-0.5), just above one, or near the middle of a cell (≡ stride/2 ± ε) — the sampled
    grid nodes are then up to half a cell off the limb, and a full cell with any other rounding rule.  2-3 animals in
    parallel lanes.  Scenes are kept only if the geometry predicts a score ≥ 0.5 for every correct pair (snapped and
    unsnapped peaks), i.e. inside the region where the unchanged code reassembles."""
    for _attempt in range(200):
        ps = rng.choice([8, 8, 16])
        cs = rng.choice([2, 4])
        sigma_p = rng.choice([0.75 * ps, float(ps), 15.0 if ps == 8 else 30.0])
        n_nodes = rng.choice([2, 3])
        edges = [(0, 1)] if n_nodes == 2 else rng.choice([[(0, 1), (1, 2)], [(1, 2), (0, 1)], [(1, 0), (1, 2)]])
        horizontal = rng.random() < 0.5
        n_an = rng.choice([2, 3])
        lane = 4 * ps if ps == 8 else 3 * ps                  # distance between the lanes of two animals
        long_cells = rng.randrange(12, 19)
        across = (n_an + 1) * lane + 2 * ps
        along = long_cells * ps
        Win, Hin = (along, across) if horizontal else (across, along)
        if rng.random() < 0.4:
            Win += rng.randrange(0, ps); Hin += rng.randrange(0, ps)
        sc = {"cs": cs, "ps": ps, "n_nodes": n_nodes, "edges": [tuple(e) for e in edges], "Hin": Hin, "Win": Win,
              "sigma_c": 1.5, "sigma_p": sigma_p, "scale": rng.choice([1.0, 0.5, 2.0]), "effs": [rng.choice([1.0, 0.8])],
              "refinement": rng.choice([None, "local", "integral"]), "patch": 5, "n_points": rng.choice([10, 10, 7]),
              "ratio": 0.25, "weight": 1.0, "min_line": 0.25, "min_peaks": 0, "threshold": 0.2}
        ml = max_edge_length(sc)
        animals = []
        ok = True
        for a in range(n_an):
            r = rng.choice([ps - 1, ps - 0.5, ps - 1.5, ps / 2 - 0.75, ps / 2 + 0.75, ps / 2 - 1.5, 0.5, 1.0, 0.0])
            base = (a + 1) * lane + ps + r - ps                # ≡ r (mod ps), one lane per animal
            pos = rng.uniform(2 * ps, 3 * ps)
            pts = {}
            order = [edges[0][0]] + [v for (_, v) in edges] if n_nodes == 2 else None
            # chain along the long axis: node sequence follows the tree (src before dst where possible)
            seq = [0, 1] if n_nodes == 2 else ([0, 1, 2] if (0, 1) in edges and (1, 2) in edges else [0, 1, 2])
            for k, node in enumerate(seq):
                cross = base + rng.choice([0.0, 0.0, 0.25, -0.25, 0.5, -0.5, 1.0])
                pts[node] = (pos, cross) if horizontal else (cross, pos)
                pos += rng.uniform(2.5 * ps, min(1.1 * ml, 4.5 * ps))
            if pos - 2.5 * ps > along - 2 * ps:
                ok = False
                break

            def q(v):
                f = Fraction(round(v * 4), 4)
                if (f / cs) % 1 == Fraction(1, 2):
                    f += Fraction(1, 4)
                return f
            animals.append([(q(pts[k][0]), q(pts[k][1])) for k in range(n_nodes)])
        if not ok:
            continue
        sc["frames"] = [animals]
        sc.update(naming(rng, n_nodes))
        good = True
        for an in animals:
            for (u, v) in sc["edges"]:
                A = (float(an[u][0]), float(an[u][1])); B = (float(an[v][0]), float(an[v][1]))
                if min(expected_true_score(sc, A, B, False), expected_true_score(sc, A, B, True)) < 0.5:
                    good = False
                # rounding ties of the snapped peak line are knife edges of the prediction itself
                for P in (A, B):
                    for c in P:
                        for val in (math.floor(c / cs + 0.5) * cs, c):
                            if abs((val / ps) % 1 - 0.5) < 0.03:
                                good = False
        if good and predicted_H2(sc, sc["frames"][0], ADMIT_MARGIN) is None:
            sc["admission_dropped"] = 0
            return sc
    raise RuntimeError("gen_coarse_family: no admissible scene in 200 attempts")


def gen_collinear_orphans_family(rng, witness):
    """F-C03c region: rigid shifts of the witness (an intact animal with an orphan source peak and an orphan destination
    peak of one edge type roughly in line with its limb, weak distance penalty) with ≤ ½ px jitter of the two partial
    animals"""
    sc = unfrac_json(json.loads(json.dumps(witness)))
    dx, dy = Fraction(rng.randrange(-32, 33), 4), Fraction(rng.randrange(-32, 33), 4)
    cs = sc["cs"]

    def mv(p, jit):
        if p is None:
            return None
        x = p[0] + dx + (Fraction(rng.randrange(-2, 3), 4) if jit else 0)
        y = p[1] + dy + (Fraction(rng.randrange(-2, 3), 4) if jit else 0)
        if (x / cs) % 1 == Fraction(1, 2):
            x += Fraction(1, 4)
        if (y / cs) % 1 == Fraction(1, 2):
            y += Fraction(1, 4)
        return (x, y)
    sc["frames"] = [[[mv(p, ai < 2) for p in an] for ai, an in enumerate(fr)] for fr in sc["frames"]]
    sc["refinement"] = rng.choice([None, "local"])     # snapped peaks: the geometry-only prediction is exact
    return sc


def gen_coincident_family(rng):
    """F-C03b region: animal A with its two connected keypoints on the same point (one NaN candidate) next to an
    intact animal B of the same 2-node skeleton."""
    cs, ps = rng.choice([(2, 4), (2, 2), (4, 4)])
    size = rng.choice([128, 160])
    L = rng.randrange(3 * ps, 6 * ps)
    ax, ay = rng.randrange(16, size // 2 - 8), rng.randrange(16, size - 16)
    # B is kept off A's row/line (≥ 32 px in y): a candidate from A's peak running along B's limb would pass
    # min_line_scores and the sentinel-forced anti-diagonal would then *mix* the animals instead of only losing B —
    # same mechanism, but the signature of F-C03b is deliberately limited to the "only missing edges" effect
    bx = rng.randrange(size // 2 + 8, size - L - 12)
    by = rng.choice([y for y in range(16, size - 16) if abs(y - ay) >= 32])

    def q(x, y):
        fx, fy = Fraction(x), Fraction(y)
        if (fx / cs) % 1 == Fraction(1, 2):
            fx += Fraction(1, 4)
        if (fy / cs) % 1 == Fraction(1, 2):
            fy += Fraction(1, 4)
        return (fx, fy)
    D = 0.7072 * (ps + cs)
    return {"cs": cs, "ps": ps, "n_nodes": 2, "edges": [(0, 1)], "Hin": size, "Win": size, "sigma_c": 1.5,
            "sigma_p": 1.4 * D * D, "frames": [[[q(ax, ay), q(ax, ay)], [q(bx, by), q(bx + L, by)]]],
            "scale": 1.0, "effs": [1.0], "refinement": None, "patch": 5, "n_points": 10,
            "ratio": 0.25, "weight": 1.0, "min_line": 0.25, "min_peaks": 0, "threshold": 0.2}


def gen_forced_family(rng):
    """Region excluded by the exchange clause of `Separated` (F-C03): a long animal A with an orphan
    source peak (animal B, destination invisible) beside A's destination end and an orphan
    destination peak (animal C, source invisible) beside A's source end."""
    cs, ps = rng.choice([(2, 4), (2, 2), (4, 4)])
    size = rng.choice([192, 224, 256])
    L = rng.uniform(0.55, 0.68) * size
    th = rng.uniform(0, 2 * math.pi)
    cx, cy = size / 2, size / 2
    ux, uy = math.cos(th), math.sin(th)
    off = rng.uniform(20, 28)
    side = rng.choice([1, -1])

    def q(x, y):
        fx, fy = Fraction(round(x * 4), 4), Fraction(round(y * 4), 4)
        if (fx / cs) % 1 == Fraction(1, 2):
            fx += Fraction(1, 4)
        if (fy / cs) % 1 == Fraction(1, 2):
            fy += Fraction(1, 4)
        return (fx, fy)
    a_s = (cx - ux * L / 2, cy - uy * L / 2)
    a_d = (cx + ux * L / 2, cy + uy * L / 2)
    b_s = (a_d[0] - uy * off * side, a_d[1] + ux * off * side)
    c_d = (a_s[0] + uy * off * side, a_s[1] - ux * off * side)
    D = 0.7072 * (ps + cs)
    return {"cs": cs, "ps": ps, "n_nodes": 2, "edges": [(0, 1)], "Hin": size, "Win": size, "sigma_c": 1.5,
            "sigma_p": 1.4 * D * D, "frames": [[[q(*a_s), q(*a_d)], [q(*b_s), None], [None, q(*c_d)]]],
            "scale": 1.0, "effs": [1.0], "refinement": rng.choice([None, "integral"]), "patch": 5, "n_points": 10,
            "ratio": 0.25, "weight": 1.0, "min_line": 0.25, "min_peaks": 0, "threshold": 0.2}


# ------------------------------------------------------------------ unit level: make_line_subs
def subs_cases(chk, n):
    import torch
    from sleap_nn.inference.paf_grouping import make_line_subs
    rng = chk.rng
    lines, impl = [], []
    for _ in range(n):
        ps = rng.choice([1, 2, 4, 8])
        h, w = rng.randrange(1, 20), rng.randrange(1, 20)
        nT = rng.choice([1, 2, 3, 5, 10, 10])
        nc = rng.randrange(1, 4)
        kind = rng.choice(["inside", "outside", "ties", "fine"])

        def coord(lim):
            if kind == "outside":
                return rng.randrange(-3 * ps, (lim + 3) * ps * 2) / 2
            if kind == "ties":
                return rng.randrange(0, 2 * lim) * ps / 2          # exact half-cell positions
            if kind == "fine":
                return float(_f32(rng.uniform(0, lim * ps)))
            return rng.randrange(0, lim * ps * 4) / 4
        cds = [(rng.randrange(0, 4), coord(w), coord(h), coord(w), coord(h)) for _ in range(nc)]
        peaks = torch.tensor([[c[1], c[2]] for c in cds] + [[c[3], c[4]] for c in cds], dtype=torch.float32)
        epi = torch.tensor([[i, nc + i] for i in range(nc)])
        ei = torch.tensor([c[0] for c in cds], dtype=torch.int32)
        r = call(make_line_subs, peaks, epi, ei, nT, ps, (h, w))
        ts32 = [float(x) for x in torch.linspace(0, 1, steps=nT)]
        lines.append(f"subs {ps} {h} {w} {lst(ts32, rat)} " +
                     lst(cds, lambda c: f"{c[0]} {rat(c[1])} {rat(c[2])} {rat(c[3])} {rat(c[4])}"))
        impl.append((kind, ps, h, w, nT, cds, r))
    out = run_driver("C03.lean", lines)
    for (kind, ps, h, w, nT, cds, r), o in zip(impl, out):
        case = {"kind": kind, "ps": ps, "hw": (h, w), "nT": nT, "cands": cds}
        chk.case(("subs", kind, ps, h, w, nT, tuple(cds)), None, tags=[f"subs:{kind}"])
        if r[0] == "raise":
            chk.disagree("make_line_subs raises", case, r, o)
            continue
        t = r[1]
        for i, blk in enumerate(o.split(" | ")):
            fpart, qpart = [x.split() for x in blk.split(" ; ")]
            fs = [(int(fpart[2 + 2 * k]), int(fpart[3 + 2 * k])) for k in range(nT)]
            qs = [(int(qpart[4 * k]), int(qpart[4 * k + 1])) for k in range(nT)]
            mg = [(unrat(qpart[4 * k + 2]), unrat(qpart[4 * k + 3])) for k in range(nT)]
            isub = [(int(t[i, p, 0, 0]), int(t[i, p, 0, 1])) for p in range(nT)]
            ich = {(int(t[i, p, 0, 2]), int(t[i, p, 1, 2])) for p in range(nT)}
            vf, n_knife = cmp_subs(isub, fs, mg)
            vq, _ = cmp_subs(isub, qs, mg)
            chk.knife_edges += n_knife
            if vf == "diff" or ich != {(int(fpart[0]), int(fpart[1]))}:
                chk.disagree("make_line_subs == BottomUp.lineSubs (Float run, unit level)", case,
                             {"subs": isub, "ch": sorted(ich)}, {"subs": fs, "ch": fpart[:2]})
                break
            if vq == "diff":
                chk.disagree("make_line_subs == BottomUp.lineSubs (exact run, unit level)", case, isub, qs)
                break
            # in-bounds (theorem line_subs_in_bounds on the implementation)
            if any(not (0 <= r_ < h and 0 <= c_ < w) for r_, c_ in isub):
                chk.fail("make_line_subs returns a subscript outside the PAF tensor", case, isub)


# ------------------------------------------------------------------ unit level: writer layout, max_instances
def writer_layout_case(chk, sc):
    """`generate_pafs(flatten_channels=True)[2e+c] == generate_pafs(flatten_channels=False)[e, c]`"""
    import torch
    from sleap_nn.data.edge_maps import generate_pafs
    fr = next((f for f in sc["frames"] if f), None)
    if fr is None:
        return
    I = torch.tensor([[[float("nan")] * 2 if p is None else [float(p[0]), float(p[1])] for p in an] for an in fr],
                     dtype=torch.float32).unsqueeze(0)
    kw = dict(img_hw=(sc["Hin"], sc["Win"]), sigma=sc["sigma_p"], output_stride=sc["ps"], edge_inds=torch.tensor(sc["edges"]))
    a = generate_pafs(I, flatten_channels=True, **kw)
    bb = generate_pafs(I, flatten_channels=False, **kw)
    for e in range(len(sc["edges"])):
        for c in (0, 1):
            if not torch.equal(a[2 * e + c], bb[e, c]):
                chk.disagree("generate_pafs channel layout == BottomUp.writerChannel", {"edge": e, "comp": c}, "differs", "2e+c")
                return
    chk.tag("writer_layout_checked")


def no_graph_case(chk, sc):
    """`forward` with `return_paf_graph=False, return_pafs=False, return_confmaps=True`: same instances, peak values
    and scores as with the graph outputs switched on (the comparison with the model uses the latter), and the
    property holds on them."""
    import torch
    r1, _ = run_impl(sc, graph=True)
    r2, _ = run_impl(sc, graph=False)
    chk.tag("no_graph_path_checked")
    if r1[0] != r2[0]:
        chk.disagree("forward(return_paf_graph=False) vs True", frac_json(sc), r2[:2], r1[:2])
        return
    if r1[0] == "raise":
        return
    for key in ("pred_instance_peaks", "pred_peak_values", "instance_scores"):
        for b in range(len(sc["frames"])):
            if not torch.equal(torch.nan_to_num(r1[1][key][b], nan=-7.0), torch.nan_to_num(r2[1][key][b], nan=-7.0)):
                chk.disagree(f"forward(return_paf_graph=False).{key} == forward(return_paf_graph=True).{key}",
                             {"scene": frac_json(sc), "sample": b}, r2[1][key][b].tolist(), r1[1][key][b].tolist())
                return
    if "edge_inds" in r2[1] or "pred_part_affinity_fields" in r2[1] or "pred_confmaps" not in r2[1]:
        chk.disagree("forward output keys with return_paf_graph=False", frac_json(sc), sorted(map(str, r2[1].keys())), "no graph keys")
    for b in range(len(sc["frames"])):
        why = oracle_out(sc, b, r2[1])
        if why:
            chk.fail(f"C03 fails on BottomUpInferenceModel.forward(return_paf_graph=False): {why}",
                     {"scene": frac_json(sc), "sample": b}, why, signatures(sc, b))


def keeptop_cases(chk, n):
    """`BottomUpPredictor._make_labeled_frames_from_generator` max_instances filter vs `keepTop`.
    Environment shim: sleap_io 0.9.2 renamed the keyword arguments of PredictedInstance.from_numpy."""
    import numpy as np
    import sleap_io as sio
    import stubs
    from sleap_nn.inference.predictors import BottomUpPredictor
    orig = sio.PredictedInstance.from_numpy

    def shim(*a, **k):
        if "points" in k:
            k["points_data"] = k.pop("points")
        if "instance_score" in k:
            k["score"] = k.pop("instance_score")
        return orig(*a, **k)
    sio.PredictedInstance.from_numpy = shim
    try:
        skel = sio.Skeleton(nodes=["a", "b"], edges=[("a", "b")])
        vid = stubs.make_video([stubs.FrameSpec(code=40, H=16, W=16)])
        rng = chk.rng
        lines, impl = [], []
        for _ in range(n):
            ni = rng.randrange(0, 7)
            k = rng.choice([None, 0, 1, 2, 3, 8])
            scores = [rng.choice([0.25, 0.5, 0.75, 1.0, 1.5]) for _ in range(ni)]
            pts = np.array([[[i, 0.0], [i, 1.0]] for i in range(ni)], dtype="float32").reshape(ni, 2, 2)
            p = BottomUpPredictor(max_instances=k, skeletons=[skel])
            p.videos = [vid]

            def gen():
                yield {"video_idx": [0], "frame_idx": [0], "pred_instance_peaks": [pts],
                       "pred_peak_values": [np.ones((ni, 2), dtype="float32")],
                       "instance_scores": [np.array(scores, dtype="float32")]}
            r = call(lambda: [int(i.numpy()[0][0]) for i in p._make_labeled_frames_from_generator(gen())[0].instances])
            lines.append(f"keeptop {'none' if k is None else k} {lst(scores, rat)}")
            impl.append((k, scores, r))
        out = run_driver("C03.lean", lines)
        for (k, scores, r), o in zip(impl, out):
            chk.case(("keeptop", k, tuple(scores)), None, tags=["keeptop"])
            mi = [int(x) for x in o.split()]
            if r[0] == "raise" or r[1] != mi:
                chk.disagree("max_instances filter == BottomUp.keepTop", {"k": k, "scores": scores}, r, mi)
    finally:
        sio.PredictedInstance.from_numpy = orig


# ------------------------------------------------------------------ main
def new_stats():
    return {"nan_scores": 0, "knife_candidates": 0, "knife_samples": 0, "scenes": 0, "H1": 0, "H2": 0, "orphan_max": None,
            "h1_worst_cells": 0.0, "true_min": None, "false_max": None,
            "dom": None, "exch": None, "score_err": 0.0, "oracle_fail_H": []}


def handle_failures(chk, sc, failures, stats, tag):
    for (b, why) in failures[:1]:
        small, sb = shrink(chk, sc, b, stats)
        if small is not sc:
            res, _ = run_impl(small)
            why = (f"forward raised {res[1]}" if res[0] == "raise"
                   else oracle_out(small, sb, res[1]) or why)
        chk.fail(f"C03 fails on BottomUpInferenceModel.forward ({tag}): {why}",
                 {"scene": frac_json(small), "sample": sb}, why, signatures(small, sb))


def main(chk: Check):
    chk.build_and_audit()
    import_repo()
    import torch
    torch.manual_seed(chk.rng.randrange(2**31))
    stats = new_stats()
    rng = chk.rng

    # fixed regression scenes first
    fixed = {
        "cs": 2, "ps": 4, "n_nodes": 3, "edges": [(1, 2), (0, 1)], "Hin": 96, "Win": 96, "sigma_c": 1.5, "sigma_p": 25.0,
        "frames": [[[(Fraction(10), Fraction(12)), (Fraction(30), Fraction(14)), (Fraction(22), Fraction(40))],
                    [(Fraction(60), Fraction(62)), (Fraction(80), Fraction(60)), None]],
                   [[(Fraction(41, 4), Fraction(12)), (Fraction(30), Fraction(57, 4)), (Fraction(22), Fraction(40))]]],
        "scale": 0.5, "effs": [1.0, 0.5], "refinement": "integral", "patch": 5, "n_points": 10, "ratio": 0.25,
        "weight": 1.0, "min_line": 0.25, "min_peaks": 0, "threshold": 0.2}
    handle_failures(chk, fixed, process_scene(chk, fixed, "fixed", stats), stats, "fixed")
    writer_layout_case(chk, fixed)

    n_scenes = chk.n(90, 900)
    done = 0
    while done < n_scenes and len(chk.disagreements) <= 8 and len(chk.failing) <= 8:
        chunk = []
        for i in range(done, min(n_scenes, done + 15)):
            emp = ["first", "middle", "last", "all", "first", "middle", "last"][(i // 9) % 7] if i % 9 == 7 else None
            sc = gen_scene(rng, big=chk.thorough and i % 5 == 0, crowded=(i % 9 == 4), empty=emp, border_band=(i % 9 == 1),
                           elongated=(i % 9 == 2))
            if i % 9 == 5:
                sc = gen_coarse_family(rng)
                chk.tag("coarse_stride_narrow_paf_scene", f"coarse:sigma_p/ps={sc['sigma_p'] / sc['ps']:.2f}")
            if i % 9 == 2:
                chk.tag("elongated_scene")
            if i % 9 == 1:
                sc["refinement"] = None   # integral refinement is biased when its patch crosses the map border (C06/C07)
                ps_, W_, H_ = sc["ps"], sc["Win"], sc["Hin"]
                lx, ly = ((W_ + ps_ - 1) // ps_ - 1) * ps_, ((H_ + ps_ - 1) // ps_ - 1) * ps_
                nb = sum(p is not None and (p[0] > lx or p[1] > ly) for fr in sc["frames"] for an in fr for p in an)
                chk.tag("border_band_scene", "border_band_keypoints>0" if nb else "border_band_none")
            if emp:
                sc["refinement"] = [None, "integral"][(i // 9) % 2] if emp != "all" else rng.choice([None, "integral"])
                chk.tag(f"empty_frame:{emp}")
            if i % 9 == 4:
                chk.tag("crowded_scene", "crowded_max_peaks>=17" if max(
                    sum(p is not None for an in fr for p in an) for fr in sc["frames"]) >= 17 else "crowded_small")
            chunk.append(impl_phase(chk, sc))
            if i % 9 == 3:
                no_graph_case(chk, sc)
            if i % 4 == 0:
                writer_layout_case(chk, sc)
        done += len(chunk)
        model = run_driver("C03.lean", [l for c in chunk for l in c["lines"]])
        pos = 0
        for c in chunk:
            fails = compare_phase(chk, c, model[pos:pos + len(c["lines"])], "gen", stats)
            pos += len(c["lines"])
            handle_failures(chk, c["sc"], fails, stats, "gen")
    if chk.disagreements and not chk.failing:
        # failing-input search: same generator, more scenes, implementation + oracle only
        for j in range(chk.n(60, 300)):
            fam = [0, 3, 5, 1, 3, 5, 2, 3, 5, 4][j % 10]    # every scene family of the main loop takes part in the search
            sc = gen_scene(rng, crowded=(fam == 1), border_band=(fam == 2), elongated=(fam == 3),
                           empty=(["first", "middle", "last"][(j // 10) % 3] if fam == 4 else None))
            if fam == 5:
                sc = gen_coarse_family(rng)
            if fam == 2:
                sc["refinement"] = None
            res, _ = run_impl(sc)
            chk.tag("search_scene")
            if res[0] == "raise":
                chk.fail(f"forward raised {res[1]}: {res[2]}", {"scene": frac_json(sc)}, res[2])
                break
            bad = [(b, oracle_out(sc, b, res[1])) for b in range(len(sc["frames"]))]
            bad = [(b, w) for b, w in bad if w]
            if bad:
                handle_failures(chk, sc, bad, stats, "search")
                break

    # known findings F-C03 / F-C03b: replay the witnesses, then sample the excluded regions (search, not coverage)
    excl = {}
    wit_c = next((f for f in chk.known if f["id"] == "F-C03c"), None)
    for fid, gen, n_excl, what in (
            ("F-C03", gen_forced_family, chk.n(12, 120), "orphan pair vs long animal"),
            ("F-C03c", (lambda r: gen_collinear_orphans_family(r, wit_c["witness"])), chk.n(6, 60) if wit_c else 0,
             "orphan source and destination in line with an intact limb"),
            ("F-C03b", gen_coincident_family, chk.n(6, 60), "coincident connected pair next to an intact animal")):
        wit = next((f for f in chk.known if f["id"] == fid), None)
        if wit is not None:
            wsc = unfrac_json(wit["witness"])
            res, _ = run_impl(wsc)
            why = "raised" if res[0] == "raise" else oracle_out(wsc, 0, res[1])
            chk.known_replay(fid, still_fails=bool(why), detail=str(why))
        n_fail = reported = 0
        xstats = new_stats()       # the measured hypotheses of the evidence are those of the main scenes only
        for _ in range(n_excl):
            sc = gen(rng)
            chk.tag(f"excluded_region_scene:{fid}")
            if fid == "F-C03b":
                # the model follows the tree under test also here: NaN scores, sentinel costs, dropped matches
                c = impl_phase(chk, sc)
                fails = compare_phase(chk, c, run_driver("C03.lean", c["lines"]), "excluded", xstats, do_case=False)
                why = fails[0][1] if fails else None
            else:
                res, _ = run_impl(sc)
                why = f"forward raised {res[1]}" if res[0] == "raise" else oracle_out(sc, 0, res[1])
            if why:
                n_fail += 1
                if reported < 2:
                    reported += 1
                    chk.fail(f"C03 fails on BottomUpInferenceModel.forward (excluded region: {what}): {why}",
                             {"scene": frac_json(sc), "sample": 0}, why, signatures(sc, 0))
        excl[fid] = {"scenes": n_excl, "oracle_failures": n_fail, "nan_scores_on_both_sides": xstats["nan_scores"]}
    chk.extra["excluded_region_cases"] = {**excl, "note": "search, not proof coverage: scenes outside H2 "
                                          "(exchange clause violated / a NaN candidate)"}

    subs_cases(chk, chk.n(150, 2000))
    keeptop_cases(chk, chk.n(40, 400))

    chk.extra["measured_hypotheses"] = {
        "samples": stats["scenes"], "H1_held": stats["H1"], "H2_held": stats["H2"],
        "H1_worst_offset_in_cms_cells": stats["h1_worst_cells"],
        "H2_min_true_score": stats["true_min"], "H2_max_false_score": stats["false_max"],
        "H2_max_orphan_pair_score": stats["orphan_max"],
        "H2_min_shared_peak_dominance": stats["dom"], "H2_min_exchange_margin": stats["exch"],
        "max_line_score_error": stats["score_err"],
        "nan_scores_on_both_sides": stats["nan_scores"],
        "knife_edge_candidates_not_score_compared": stats["knife_candidates"],
        "knife_edge_samples_not_grouping_compared": stats["knife_samples"],
        "oracle_failures_with_hypotheses": stats["oracle_fail_H"][:10],
    }


def replay(chk: Check, payload):
    import_repo()
    case = payload.get("case") or payload["disagreements"][0]["case"]
    sc = unfrac_json(case["scene"])
    stats = new_stats()
    fails = process_scene(chk, sc, "replay", stats)
    print(f"replay: oracle failures={fails} disagreements={len(chk.disagreements)}")
    for (b, why) in fails:
        chk.fail(f"C03 fails on BottomUpInferenceModel.forward (replay): {why}", {"scene": frac_json(sc), "sample": b},
                 why, signatures(sc, b))


if __name__ == "__main__":
    chk = Check(
        "C03", module="SleapVerif.Props.C03", theorems=THEOREMS,
        build_targets=["SleapVerif.Model.BottomUp", "SleapVerif.Model.Grouping", "SleapVerif.Model.Toposort",
                       "SleapVerif.Model.Proto"],
        trusted=[
            "Lean 4.33 kernel; axioms ⊆ {propext, Classical.choice, Quot.sound} (audited per run)",
            "hand-written model BottomUp.lean (+ Grouping.lean, Toposort.lean) of bottomup.py / paf_grouping.py; tied to /repo by "
            "the correspondence on the explored scenes only",
            "H1 (one peak per visible keypoint within half a cell) and H2 (score separation) of reassembly_exact are analytic "
            "facts about Gaussian/PAF fields: NOT proved, measured per scene on the real tensors (see measured_hypotheses)",
            "scipy linear_sum_assignment: parameter `lsa` of the model (its recorded answers); ONE contract, C08's LsaSpec "
            "(minimum-cost saturating matching; LsaStable is derived from it in Lean), validated by brute force on every call",
            "the C08 / C17 pipeline theorems used (tree_conns, assign_classes_eq_components, grouping_total(_partial), "
            "min_score_filtered, rows, toposort_perm) are restated in Lemmas/BottomUpDeps.lean from the C08/C17 lemma files; the "
            "Grouping / Toposort models they speak about are tied to the code by harness/c08.py and harness/c17.py",
            "float32/float64 arithmetic: line subscripts reproduced bit-exactly by the Float run of the model; scores within 2e-5",
            "stub network = the repo's own generate_multiconfmaps / generate_pafs on the scaled scene; recording wrappers around "
            "find_local_peaks, make_line_subs, linear_sum_assignment (harness side)",
            "sleap_io keyword shim for PredictedInstance.from_numpy (max_instances path only)",
        ],
        rule="batches of 1-3 frames of 1-5 animals on random tree skeletons (2-6 nodes, random numbering and edge listing), "
             "animals separated by ≥ max(PAF band, 6σ), keypoints on the 1/4-pixel lattice of the network input, random missing "
             "nodes, (cms,paf) strides from 8 pairs, input scale × per-frame eff_scale, refinement None/integral, n_points; "
             "distinct = distinct (strides, skeleton listing, #animals, #visible, #groups, scales, refinement); trivial = frames "
             "with < 2 visible keypoints; plus unit-level make_line_subs cases (inside/outside/ties/fine) and max_instances cases",
        assumptions=[
            "keypoints exactly half-way between two confidence-map cells (tied maxima, C06/C07 territory) are excluded by the generator",
            "integral refinement of a peak closer to the map border than half its patch is biased inward by > half a cell "
            "(observed 0.63 cell at a 5x5 patch, cms stride 1, keypoint 1.25 px from the right border): C06/C07 matter; "
            "border-band scenes use refinement None, all other scenes keep keypoints ≥ max(stride)+2 px from the border",
            "a connected pair of keypoints in one confidence-map cell gives a NaN candidate: outside H2 (SepTable.valid); the "
            "main generator keeps connected nodes ≥ 2 PAF cells apart, the region is sampled separately (F-C03b, known); "
            "F-C08 (the raise) is fixed in /repo HEAD and the model follows the tree under test (`fixed`); LabelsReader at scale ≠ 1 (F-C02) are inherited findings and not exercised here",
        ],
    )
    run_check(chk, main, replay)
