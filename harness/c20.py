"""C20 — config builders reflect every argument; normalisation is lossless and idempotent;
validators reject invalid values.

Model: lean/SleapVerif/Model/Config.lean; theorems: lean/SleapVerif/Props/C20.lean.

Correspondence (every run): the real `get_aug_config`, `get_backbone_config`,
`get_head_configs`, `get_data_config`, `get_model_config`, `get_trainer_config`, the attrs
classes of `sleap_nn/config/*` and `verify_training_cfg` vs the Lean driver, on the same argument
records.  Nothing about the schema is copied into the model: the default tree of every attrs
class (`OmegaConf.structured(Cls())`) and the subclass relation of the classes are produced here,
from the working tree, on every run and sent to the driver as data.  Trees are compared as typed
canonical values (dict order ignored, tuple = list, `1` ≠ `1.0` ≠ `True`).
"""
import inspect
import itertools
import json
import os
import tempfile
from fractions import Fraction

from common import Check, call, import_repo, run_check, run_driver

THEOREMS = [
    "SleapVerif.C20.merge_self",
    "SleapVerif.C20.merge_idempotent",
    "SleapVerif.C20.merge_lossless",
    "SleapVerif.C20.verify_lossless",
    "SleapVerif.C20.verify_lossless_top_level",
    "SleapVerif.C20.verify_idempotent",
    "SleapVerif.C20.verify_complete_fixed_point",
    "SleapVerif.C20.construct_places",
    "SleapVerif.C20.construct_defaults",
    "SleapVerif.C20.construct_complete",
    "SleapVerif.C20.data_places_args",
    "SleapVerif.C20.model_places_args",
    "SleapVerif.C20.trainer_places_args",
    "SleapVerif.C20.builder_places_args",
    "SleapVerif.C20.builder_defaults",
    "SleapVerif.C20.aug_list_order_irrelevant",
    "SleapVerif.C20.aug_named_enabled",
    "SleapVerif.C20.aug_asIs_partial",
    "SleapVerif.C20.aug_order_counterexample",
    "SleapVerif.C20.intensity_order_irrelevant",
    "SleapVerif.C20.intensity_named_enabled",
    "SleapVerif.C20.preset_complete",
    "SleapVerif.C20.preset_counterexample",
    "SleapVerif.C20.validators_reject",
    "SleapVerif.C20.rules_meaning",
    "SleapVerif.C20.nan_rejected",
    "SleapVerif.C20.nonfinite_rejected",
    "SleapVerif.C20.validators_reject_nan",
    "SleapVerif.C20.oneof_rejects",
    "SleapVerif.C20.oneof_verdict_depends_on_fields_only",
    "SleapVerif.C20.which_oneof_raises",
    "SleapVerif.C20.oneof_rejects_after_assignment",
    "SleapVerif.C20.builders_history_independent",
    "SleapVerif.C20.aug_named_enabled_tree",
    "SleapVerif.C20.getAugConfig_parts",
    "SleapVerif.C20.aug_dict_is_constructor",
    "SleapVerif.C20.backbone_dict_places",
    "SleapVerif.C20.backbone_dict_selects",
    "SleapVerif.C20.scheduler_dict_places",
    "SleapVerif.C20.head_dict_places",
    "SleapVerif.C20.builder_complete_nested",
    "SleapVerif.C20.train_cfg_eq_builders",
    "SleapVerif.C20.assign_verdict_eq_construct",
    "SleapVerif.C20.assign_accepts_only_valid",
    "SleapVerif.C20.assign_rejects_nan",
    "SleapVerif.C20.assign_checks_old_counterexample",
    "SleapVerif.C20.assign_checks_old_only",
    "SleapVerif.C20.convnext_model_type_rejected",
    "SleapVerif.C20.geometric_scale_counterexample",
    "SleapVerif.C20.backbone_dict_drops_second_counterexample",
]

GEO = ["rotation", "scale", "translate", "erase_scale", "mixup"]
AFFINE = {"rotation", "scale", "translate"}
INT = ["uniform_noise", "gaussian_noise", "contrast", "brightness"]
PRESETS = ["unet", "unet_medium_rf", "unet_large_rf", "convnext", "convnext_tiny", "convnext_small",
           "convnext_base", "convnext_large", "swint", "swint_tiny", "swint_small", "swint_base"]
HEADS = ["single_instance", "centroid", "centered_instance", "bottomup"]


# ------------------------------------------------------------------ canonical typed trees
def tag(o, tup=False):
    """(tup=True: for ARGUMENTS sent to the model — a Python tuple is kept apart from a list, token `U`, because the
    builders' isinstance tests tell them apart; observed OUTPUTS use tup=False: OmegaConf stores tuples as lists.)
    Typed canonical form: None | ('b',x) | ('i',x) | ('f',Fraction) | ('s',x) | ('L',[..]) | dict."""
    if o is None:
        return None
    if isinstance(o, bool):
        return ("b", o)
    if isinstance(o, int):
        return ("i", int(o))
    if isinstance(o, float):
        if o != o:
            return ("f", "nan")           # "not a number" is an explicit value of the model
        if o in (float("inf"), float("-inf")):
            return ("f", "inf" if o > 0 else "-inf")
        return ("f", Fraction(repr(o)))  # exact decimal of the shortest repr: lossless both ways
    if isinstance(o, str):
        return ("s", o)
    if isinstance(o, tuple) and tup:
        return ("U", [tag(x, tup) for x in o])
    if isinstance(o, (list, tuple)):
        return ("L", [tag(x, tup) for x in o])
    if isinstance(o, dict):
        return {str(k): tag(v, tup) for k, v in o.items()}
    if hasattr(o, "__tuple__"):
        return tag(o.__tuple__, tup)
    raise TypeError(f"cannot canonicalise {type(o)}")


_SAFE = set("abcdefghijklmnopqrstuvwxyzABCDEFGHIJKLMNOPQRSTUVWXYZ0123456789_-./:?,=+@")


def enc(s: str) -> str:
    return "".join(c if c in _SAFE else "".join(f"%{b:02X}" for b in c.encode()) for c in s)


def dec(s: str) -> str:
    out = bytearray()
    i = 0
    while i < len(s):
        if s[i] == "%":
            out.append(int(s[i + 1:i + 3], 16))
            i += 3
        else:
            out += s[i].encode()
            i += 1
    return out.decode()


def targ(o):
    return tag(o, tup=True)


def toks(t) -> str:
    if t is None:
        return "n"
    if isinstance(t, dict):
        return " ".join(["N", str(len(t))] + [enc(k) + " " + toks(v) for k, v in t.items()])
    k, v = t
    if k == "b":
        return "T" if v else "F"
    if k == "i":
        return f"i{v}"
    if k == "f":
        if isinstance(v, str):
            return "f" + v
        return f"f{v.numerator}" if v.denominator == 1 else f"f{v.numerator}/{v.denominator}"
    if k == "s":
        return "s" + enc(v)
    if k in ("L", "U"):
        return " ".join([k, str(len(v))] + [toks(x) for x in v])
    raise ValueError(k)


def parse(ts: list, i=0):
    t = ts[i]
    if t == "N":
        n = int(ts[i + 1])
        i += 2
        d = {}
        for _ in range(n):
            k = dec(ts[i])
            v, i = parse(ts, i + 1)
            d[k] = v
        return d, i
    if t == "L":
        n = int(ts[i + 1])
        i += 2
        l = []
        for _ in range(n):
            v, i = parse(ts, i)
            l.append(v)
        return ("L", l), i
    if t == "n":
        return None, i + 1
    if t in "TF":
        return ("b", t == "T"), i + 1
    if t[0] == "i":
        return ("i", int(t[1:])), i + 1
    if t in ("fnan", "finf", "f-inf"):
        return ("f", t[1:]), i + 1
    if t[0] == "f":
        return ("f", Fraction(t[1:])), i + 1
    if t[0] == "s":
        return ("s", dec(t[1:])), i + 1
    raise ValueError(t)


def model_result(line: str):
    ts = line.split()
    if ts[0] == "ok":
        v, i = parse(ts, 1)
        assert i == len(ts), line
        return ("ok", v)
    if ts[0] == "raise":
        return ("raise", ts[1])
    raise RuntimeError("driver: " + line)


def untag(t):
    """back to plain python (for readable replays)"""
    if t is None:
        return None
    if isinstance(t, dict):
        return {k: untag(v) for k, v in t.items()}
    k, v = t
    if k == "f":
        return float(v)
    if k == "L":
        return [untag(x) for x in v]
    return v


NAN, INF = float("nan"), float("inf")


def show(r):
    return r if r[0] == "raise" else ("ok", untag(r[1]))


class Tup:
    """a tuple argument that survives the JSON replay file"""

    def __init__(self, xs):
        self.__tuple__ = tuple(xs)


def to_json(o):
    if isinstance(o, float) and (o != o or o in (INF, -INF)):
        return {"__float__": repr(o)}
    if isinstance(o, tuple):
        return {"__tuple__": [to_json(x) for x in o]}
    if isinstance(o, list):
        return [to_json(x) for x in o]
    if isinstance(o, dict):
        return {k: to_json(v) for k, v in o.items()}
    return o


def from_json(o):
    if isinstance(o, dict):
        if set(o) == {"__tuple__"}:
            return tuple(from_json(x) for x in o["__tuple__"])
        if set(o) == {"__float__"}:
            return float(o["__float__"])
        return {k: from_json(v) for k, v in o.items()}
    if isinstance(o, list):
        return [from_json(x) for x in o]
    return o


def scramble(o, depth=0):
    """what a caller may do with a config object it was handed: overwrite every option in place
    (attrs attribute assignment, dict / list item assignment), recursively"""
    def changed(v):
        if isinstance(v, bool):
            return not v
        if isinstance(v, int):
            return v + 3
        if isinstance(v, float):
            return v * 0.5 + 0.125
        if isinstance(v, str):
            return v + "_mutated"
        if v is None:
            return 7
        if isinstance(v, tuple):
            return tuple(changed(x) for x in v)
        return v
    if depth > 6:
        return
    if hasattr(o, "__attrs_attrs__"):
        for a in o.__attrs_attrs__:
            v = getattr(o, a.name)
            if hasattr(v, "__attrs_attrs__") or isinstance(v, (dict, list)):
                scramble(v, depth + 1)
            else:
                try:
                    setattr(o, a.name, changed(v))
                except Exception:
                    pass        # a validator refused the new value: the caller's problem, not ours
    elif isinstance(o, dict):
        for k in list(o):
            if hasattr(o[k], "__attrs_attrs__") or isinstance(o[k], (dict, list)):
                scramble(o[k], depth + 1)
            else:
                o[k] = changed(o[k])
    elif isinstance(o, list):
        for i in range(len(o)):
            if hasattr(o[i], "__attrs_attrs__") or isinstance(o[i], (dict, list)):
                scramble(o[i], depth + 1)
            else:
                o[i] = changed(o[i])


def first_diff(a, b, p=()):
    if isinstance(a, dict) and isinstance(b, dict):
        for k in sorted(set(a) | set(b)):
            if a.get(k, "<absent>") != b.get(k, "<absent>"):
                return first_diff(a.get(k, "<absent>"), b.get(k, "<absent>"), p + (k,))
    try:
        return f"{'.'.join(p) or '<root>'}: {untag(a)!r} instead of {untag(b)!r}"
    except Exception:
        return f"{'.'.join(p) or '<root>'}: {a!r} instead of {b!r}"


def all_diffs(a, b, p=()):
    """paths of all leaves (or sub-trees of different kind) at which two typed trees differ"""
    if isinstance(a, dict) and isinstance(b, dict):
        out = []
        for k in sorted(set(a) | set(b)):
            if k not in a or k not in b:
                out.append(p + (k,))
            elif a[k] != b[k]:
                out += all_diffs(a[k], b[k], p + (k,))
        return out
    return [p] if a != b else []


def shared_default_fields(impl):
    """field names whose attrs default is ONE mutable object shared by every instance (a literal list /
    dict / config object instead of a factory) — the structural signature of F-C20c"""
    out = set()
    for c in impl.classes.values():
        for a in c.__attrs_attrs__:
            d = a.default
            if isinstance(d, (list, dict)) or hasattr(d, "__attrs_attrs__"):
                out.add(a.name)
    return out


def only_shared_defaults(impl, a, b):
    if a[0] != "ok" or b[0] != "ok":
        return False
    ds = all_diffs(a[1], b[1])
    sh = shared_default_fields(impl)
    return bool(ds) and bool(sh) and all(any(k in sh for k in d) for d in ds)


def describe(sub):
    op = sub["op"]
    if op == "aug":
        return f"get_aug_config({sub['ia']!r}, {sub['ga']!r})"
    if op in ("backbone", "head"):
        return f"get_{'backbone_config' if op == 'backbone' else 'head_configs'}({sub['a']!r})"
    if op == "new":
        return f"{sub['cls']}()"
    return f"get_{op}_config(" + ", ".join(f"{k}={v!r}" for k, v in sub["kw"].items()) + ")"


# ------------------------------------------------------------------ implementation side
class Impl:
    def __init__(self):
        import_repo()
        from omegaconf import OmegaConf

        import sleap_nn.config.data_config as dc
        import sleap_nn.config.model_config as mc
        import sleap_nn.config.trainer_config as tc
        import sleap_nn.config.training_job_config as tj
        import sleap_nn.train as tr

        try:  # validators log every rejection; keep the check's output readable
            from loguru import logger

            logger.remove()
        except Exception:
            pass
        self.OC, self.dc, self.mc, self.tc, self.tj, self.tr = OmegaConf, dc, mc, tc, tj, tr
        self.classes = {}
        for mod in (dc, mc, tc, tj):
            for n, c in vars(mod).items():
                if inspect.isclass(c) and hasattr(c, "__attrs_attrs__") and c.__module__ == mod.__name__:
                    self.classes[n] = c

    def structured(self, obj):
        return self.OC.to_container(self.OC.structured(obj))

    def observe(self, fn, *a, **k):
        """call + what `to_sleap_nn_cfg` would make of the returned attrs object.

        Shared argument objects (added after C20-r9m1): when an argument is a dict / list, the call is made on
        a private deep copy and then REPEATED with the very same objects (a caller sweeping over one head dict);
        a second answer that differs from the first is recorded in `repeat_diffs` and reported by `run_cases`
        as a failing history ("every argument the caller supplies ... at its documented place" fails for call 2)."""
        import copy

        mutable = any(isinstance(x, (dict, list)) for x in list(a) + list(k.values()))
        if mutable:
            a, k = copy.deepcopy((a, k))
            before = copy.deepcopy((a, k))
        out = self._observe_once(fn, a, k)
        if mutable:
            again = self._observe_once(fn, a, k)
            if again != out:
                self.repeat_diffs = getattr(self, "repeat_diffs", [])
                self.repeat_diffs.append({"builder": getattr(fn, "__name__", str(fn)),
                                          "args": to_json(list(before[0])), "kwargs": to_json(before[1]),
                                          "args_after_call_1": to_json(list(a)), "kwargs_after_call_1": to_json(k),
                                          "call_1": out, "call_2_same_objects": again})
        return out

    def _observe_once(self, fn, a, k):
        r = call(fn, *a, **k)
        if r[0] == "raise":
            return ("raise", r[1])
        r2 = call(self.structured, r[1])
        if r2[0] == "raise":
            return ("raise", r2[1])
        return ("ok", tag(r2[1]))

    def env_lines(self):
        lines = []
        self.defaults = {}
        for n, c in sorted(self.classes.items()):
            t = tag(self.structured(c()))
            self.defaults[n] = t
            lines.append(f"env {n} {toks(t)}")
        for a, ca in sorted(self.classes.items()):
            for b, cb in sorted(self.classes.items()):
                if a != b and issubclass(ca, cb):
                    lines.append(f"sub {a} {b}")
        return lines

    def full_args(self, fn, kw):
        """the complete argument record the MODEL is given: the caller's keywords over the pinned table
        EFFECTIVE_DEFAULTS (documented defaults; not read from the implementation's signature, so an edit of a
        signature default shows up as a disagreement and as an oracle failure)"""
        kind = fn.__name__[4:-7]
        inspect.signature(fn).bind(**kw)          # only checks that the keywords exist (TypeError otherwise)
        return {**EFFECTIVE_DEFAULTS[kind], **kw}

    BUILDER_OPS = ("aug", "backbone", "head", "data", "model", "trainer")

    def raw_call(self, sub):
        """one builder call, returning the attrs object itself: ('ok', obj) | ('raise', cls, msg)"""
        import copy

        sub = copy.deepcopy(sub)     # the objects built may keep references to list/dict arguments; the
        tr, op = self.tr, sub["op"]  # recorded case must not change when a result is overwritten in place
        if op == "aug":
            return call(tr.get_aug_config, sub["ia"], sub["ga"])
        if op == "backbone":
            return call(tr.get_backbone_config, sub["a"])
        if op == "head":
            return call(tr.get_head_configs, sub["a"])
        if op == "new":
            return call(self.classes[sub["cls"]])
        return call(getattr(tr, f"get_{op}_config"), **sub["kw"])

    def observed(self, r):
        if r[0] == "raise":
            return ("raise", r[1])
        r2 = call(self.structured, r[1])
        return ("raise", r2[1]) if r2[0] == "raise" else ("ok", tag(r2[1]))

    def prime(self, cases):
        """results of every call that occurs in a history, taken BEFORE any object is mutated in this
        process: the stand-in for 'the same call in a fresh interpreter state'"""
        self.fresh = getattr(self, "fresh", {})
        for c in cases:
            if c["op"] == "hist":
                for st in c["steps"]:
                    if "call" in st:
                        k = json.dumps(to_json(st["call"]), sort_keys=True)
                        if k not in self.fresh:
                            self.fresh[k] = self.observed(self.raw_call(st["call"]))

    def run_history(self, case):
        lines, outs, objs = [], [], []
        for st in case["steps"]:
            if "call" in st:
                lines.append(model_lines_only(self, st["call"])[0])
                r = self.raw_call(st["call"])
                objs.append(r[1] if r[0] == "ok" else None)
                outs.append(self.observed(r))      # what the call returned, at the time it returned
            else:
                o = objs[st["mutate"]] if st["mutate"] < len(objs) else None
                if o is not None:
                    scramble(o)
        return lines, ("hist", outs)

    def run_which(self, case):
        cls = self.classes[case["cls"]]
        kwt = {f: self.defaults[c] for f, c in case["init"].items()}
        asg = " ".join(["N", str(len(case["assign"]))] +
                       [enc(f) + " " + toks(self.defaults[c] if c else None) for f, c in case["assign"]])
        line = f"which {case['mode']} {case['cls']} {toks(kwt)} {asg}"

        def go():
            obj = cls(**{f: self.classes[c]() for f, c in case["init"].items()})
            for f, c in case["assign"]:
                setattr(obj, f, self.classes[c]() if c else None)
            if case["mode"] == "name":
                return obj.which_oneof_attrib_name()
            v = obj.which_oneof()
            return None if v is None else self.structured(v)
        r = call(go)
        return [line], (("raise", r[1]) if r[0] == "raise" else ("ok", tag(r[1])))

    # ---- attribute assignment on existing objects
    def assign_target(self, src):
        """the object a case assigns to: a freshly constructed default object of the class, or a node of what a
        builder returns (built anew for every case)"""
        import copy

        if src == "default":
            return None
        obj = getattr(self.tr, f"get_{src['builder']}_config")(**copy.deepcopy(src["kw"]))
        for k in src["path"]:
            obj = getattr(obj, k)
        return obj

    def run_assign(self, case):
        import attrs

        cls = self.classes[case["cls"]]
        obj = cls() if case["src"] == "default" else self.assign_target(case["src"])
        assert type(obj) is cls, (type(obj), cls)
        f, v = case["field"], self.case_kwargs({"kw": {"v": case["value"]}})["v"]
        kwt = {} if case["src"] == "default" else tag(self.structured(obj))
        line = f"assign {case['cls']} {enc(f)} {toks(kwt)} {toks(targ(v))}"
        old = tag(getattr(obj, f))
        ctor = call(attrs.evolve, obj, **{f: v})          # the constructor, same other fields
        r = call(setattr, obj, f, v)
        now = tag(getattr(obj, f))
        self.last_assign = {"ctor": ("ok",) if ctor[0] == "ok" else ("raise", ctor[1]), "old": old, "now": now, "new": tag(v)}
        return [line], (("raise", r[1]) if r[0] == "raise" else ("ok", now))

    def run_train(self, kw):
        """the real `train()` with `run_training` replaced, for the duration of the call, by a recorder
        (harness-side; nothing in /repo changes): what configuration would training start from?"""
        import copy

        rec = []
        orig = self.tr.run_training
        self.tr.run_training = lambda cfg: rec.append(self.OC.to_container(cfg))
        try:
            r = call(self.tr.train, **copy.deepcopy(kw))
        finally:
            self.tr.run_training = orig
        if r[0] == "raise":
            return ("raise", r[1])
        if len(rec) != 1:
            return ("raise", f"run_training called {len(rec)} times")
        return ("ok", tag(rec[0]))

    def compose_builders(self, kw):
        """TrainingJobConfig(get_data_config(…), get_model_config(…), get_trainer_config(…)).to_sleap_nn_cfg() on the
        same keyword arguments, each routed to the builder whose signature has it"""
        import copy

        kw = copy.deepcopy(kw)
        parts = {}
        for k in ("data", "model", "trainer"):
            names = inspect.signature(getattr(self.tr, f"get_{k}_config")).parameters
            parts[k] = {a: v for a, v in kw.items() if a in names}
        r = call(lambda: self.OC.to_container(self.tj.TrainingJobConfig(
            data_config=self.tr.get_data_config(**parts["data"]), model_config=self.tr.get_model_config(**parts["model"]),
            trainer_config=self.tr.get_trainer_config(**parts["trainer"])).to_sleap_nn_cfg()))
        return ("raise", r[1]) if r[0] == "raise" else ("ok", tag(r[1]))

    def case_kwargs(self, case):
        """keyword arguments of a ctor/bctor case; `yaml` = {dotted.path: YAML literal} entries are loaded
        with OmegaConf (the way a value reaches the classes from a config file) and put in place"""
        kw = json.loads(json.dumps(to_json(case.get("kw", {}))))
        kw = from_json(kw)
        for path, lit in (case.get("yaml") or {}).items():
            v = self.OC.to_container(self.OC.create(f"v: {lit}"))["v"]
            d = kw
            ks = path.split(".")
            for k in ks[:-1]:
                d = d.setdefault(k, {})
            d[ks[-1]] = v
        return kw

    # --- one case -> (driver lines, impl result)
    def run(self, case):
        op = case["op"]
        tr = self.tr
        if op == "hist":
            return self.run_history(case)
        if op == "which":
            return self.run_which(case)
        if op == "aug":
            ia, ga = case["ia"], case["ga"]
            return [f"aug fixed {toks(targ(ia))} {toks(targ(ga))}"], self.observe(tr.get_aug_config, ia, ga)
        if op == "backbone":
            return [f"backbone {toks(targ(case['a']))}"], self.observe(tr.get_backbone_config, case["a"])
        if op == "head":
            return [f"head {toks(targ(case['a']))}"], self.observe(tr.get_head_configs, case["a"])
        if op == "data":
            full = self.full_args(tr.get_data_config, case["kw"])
            return [f"data fixed {toks(targ(full))}"], self.observe(tr.get_data_config, **case["kw"])
        if op == "model":
            full = self.full_args(tr.get_model_config, case["kw"])
            return [f"model {toks(targ(full))}"], self.observe(tr.get_model_config, **case["kw"])
        if op == "trainer":
            full = self.full_args(tr.get_trainer_config, case["kw"])
            return [f"trainer {toks(targ(full))}"], self.observe(tr.get_trainer_config, **case["kw"])
        if op == "assign":
            lines, res = self.run_assign(case)
            case["_assign"] = self.last_assign
            return lines, res
        if op == "train":
            full = {}
            for k in ("data", "model", "trainer"):
                full.update(EFFECTIVE_DEFAULTS[k])
            full.update(case["kw"])
            return [f"train {toks(targ(full))}"], self.run_train(case["kw"])
        if op == "mk":
            cls = self.classes[case["cls"]]
            return [f"mk {case['cls']} {toks(targ(case['kw']))}"], self.observe(cls, **case["kw"])
        if op == "ctor":
            # the attrs constructor alone (validators), value given directly or read from YAML text
            cls = self.classes[case["cls"]]
            kw = self.case_kwargs(case)
            r = call(cls, **kw)
            return [f"mk {case['cls']} {toks(targ(kw))}"], (("ok", None) if r[0] == "ok" else ("raise", r[1]))
        if op == "bctor":
            # a builder observed at attrs level (no OmegaConf conversion): did the validators let it through?
            fn = getattr(tr, f"get_{case['fn']}_config")
            kw = self.case_kwargs(case)
            full = self.full_args(fn, kw)
            line = {"data": "data fixed", "model": "modelraw", "trainer": "trainer"}[case["fn"]]
            r = call(fn, **kw)
            return [f"{line} {toks(targ(full))}"], (("ok", None) if r[0] == "ok" else ("raise", r[1]))
        if op == "oneof":
            # BackboneConfig / HeadConfig with the named fields set to default sub-configs
            cls = self.classes[case["cls"]]
            kw = {f: self.classes[c]() for f, c in case["set"].items()}
            kwt = {f: self.defaults[c] for f, c in case["set"].items()}
            # `pos` leading fields (order of attrs.fields) are passed POSITIONALLY (None where not set), the rest by keyword
            order = [a.name for a in cls.__attrs_attrs__][:case.get("pos", 0)]
            args = [kw.pop(f, None) for f in order]
            return [f"mk {case['cls']} {toks(kwt)}"], self.observe(cls, *args, **kw)
        if op == "verify":
            cfg = self.OC.create(case["cfg"])
            r = call(self.tj.verify_training_cfg, cfg)
            res = ("raise", r[1]) if r[0] == "raise" else ("ok", tag(self.OC.to_container(r[1])))
            return [f"verify {toks(tag(case['cfg']))}"], res
        if op == "merge":
            r = call(lambda: self.OC.to_container(self.OC.merge(self.OC.create(case["s"]), self.OC.create(case["c"]))))
            res = ("raise", r[1]) if r[0] == "raise" else ("ok", tag(r[1]))
            return [f"merge {toks(tag(case['s']))} {toks(tag(case['c']))}"], res
        raise ValueError(op)


# ------------------------------------------------------------------ property oracles (implementation only)
def leaves(t, p=()):
    if isinstance(t, dict):
        for k, v in t.items():
            yield from leaves(v, p + (k,))
    else:
        yield p, t


def get(t, p):
    for k in p:
        if not isinstance(t, dict) or k not in t:
            return "<absent>"
        t = t[k]
    return t


F = lambda x: ("f", Fraction(repr(float(x))))


def geo_enabled(name, g):
    """is the named geometric augmentation switched on in the geometric subtree `g` (typed)?"""
    if name == "rotation":
        return g["affine_p"] == F(1) and g["rotation"] not in (F(0), ("i", 0))
    if name == "scale":
        return g["affine_p"] == F(1) and g["scale"] != ("L", [F(1), F(1)])
    if name == "translate":
        return g["affine_p"] == F(1) and g["translate_width"] not in (F(0), ("i", 0)) \
            and g["translate_height"] not in (F(0), ("i", 0))
    if name == "erase_scale":
        return g["erase_p"] == F(1)
    if name == "mixup":
        return g["mixup_p"] == F(1)
    return False


def aug_names(a, valid):
    """the list of names an argument denotes if it is a str/list of valid names, else None"""
    if isinstance(a, str):
        a = [a]
    if isinstance(a, list) and all(isinstance(x, str) and x in valid for x in a):
        return a
    return None


def oracle_aug(impl: Impl, ia, ga):
    """C20 on get_aug_config: every named augmentation enabled, whatever the order.
    Returns (why, signatures) or None."""
    r = impl.observe(impl.tr.get_aug_config, ia, ga)
    gn, inn = aug_names(ga, GEO), aug_names(ia, INT)
    if gn is None and inn is None:
        return None
    if (gn is None and isinstance(ga, (str, list))) or (inn is None and isinstance(ia, (str, list))):
        return None   # an invalid name: the property quantifies over valid names only
    if r[0] == "raise":
        return f"raised {r[1]} on valid names", []
    out = r[1]
    bad = []
    for n in inn or []:
        if out["intensity"][n + "_p"] != F(1):
            bad.append(f"intensity '{n}' named but {n}_p = {untag(out['intensity'][n + '_p'])}")
    for n in gn or []:
        if not geo_enabled(n, out["geometric"]):
            bad.append(f"geometric '{n}' named but not enabled")
    # order: every permutation gives the same configuration
    if gn is not None and len(gn) <= 5:
        for p in itertools.permutations(gn):
            rp = impl.observe(impl.tr.get_aug_config, ia, list(p))
            if rp != r:
                bad.append(f"order matters: {list(p)} differs from {gn}")
                break
    if inn is not None and len(inn) <= 4:
        for p in itertools.permutations(inn):
            rp = impl.observe(impl.tr.get_aug_config, list(p), ga)
            if rp != r:
                bad.append(f"order matters: {list(p)} differs from {inn}")
                break
    if not bad:
        return None
    sigs = []
    if gn is not None and len(AFFINE & set(gn)) >= 2 and all("geometric" in b or "order matters" in b for b in bad):
        sigs.append("aug_two_affine_names")
    return "; ".join(bad), sigs


# documented place of every builder argument (docstrings of train.py / docs of the config classes)
PLACE = {
    "data": {
        **{k: (k,) for k in ["train_labels_path", "val_labels_path", "test_file_path", "provider",
                             "user_instances_only", "data_pipeline_fw", "np_chunks_path", "litdata_chunks_path",
                             "use_existing_chunks", "chunk_size", "delete_chunks_after_training",
                             "use_augmentations_train"]},
        **{k: ("preprocessing", k) for k in ["is_rgb", "scale", "max_height", "max_width", "crop_hw",
                                             "min_crop_size"]},
    },
    "model": {"init_weight": ("init_weights",), "pre_trained_weights": ("pre_trained_weights",),
              "pretrained_backbone_weights": ("pretrained_backbone_weights",),
              "pretrained_head_weights": ("pretrained_head_weights",)},
    "trainer": {
        "batch_size": [("train_data_loader", "batch_size"), ("val_data_loader", "batch_size")],
        "shuffle_train": ("train_data_loader", "shuffle"),
        "num_workers": [("train_data_loader", "num_workers"), ("val_data_loader", "num_workers")],
        "ckpt_save_top_k": ("model_ckpt", "save_top_k"), "ckpt_save_last": ("model_ckpt", "save_last"),
        "trainer_num_devices": ("trainer_devices",), "trainer_accelerator": ("trainer_accelerator",),
        "enable_progress_bar": ("enable_progress_bar",), "steps_per_epoch": ("steps_per_epoch",),
        "max_epochs": ("max_epochs",), "seed": ("seed",), "use_wandb": ("use_wandb",),
        "save_ckpt": ("save_ckpt",), "save_ckpt_path": ("save_ckpt_path",),
        "resume_ckpt_path": ("resume_ckpt_path",), "wandb_entity": ("wandb", "entity"),
        "wandb_project": ("wandb", "project"), "wandb_name": ("wandb", "name"),
        "wandb_api_key": ("wandb", "api_key"), "wandb_mode": ("wandb", "wandb_mode"),
        "wandb_resume_prv_runid": ("wandb", "prv_runid"), "wandb_group_name": ("wandb", "group"),
        "optimizer": ("optimizer_name",), "learning_rate": ("optimizer", "lr"), "amsgrad": ("optimizer", "amsgrad"),
        "early_stopping": ("early_stopping", "stop_training_on_plateau"),
        "early_stopping_min_delta": ("early_stopping", "min_delta"),
        "early_stopping_patience": ("early_stopping", "patience"),
    },
}
STRUCTURED_ARGS = {"data": {"intensity_aug", "geometry_aug"}, "model": {"backbone_config", "head_configs"},
                   "trainer": {"lr_scheduler"}}
ROOT_CLASS = {"data": "DataConfig", "model": "ModelConfig", "trainer": "TrainerConfig"}
# sub-trees the builder fills from a structured argument or from its own sub-builders
COMPUTED = {"data": [("augmentation_config",)], "model": [("backbone_config",), ("head_configs",)],
            "trainer": [("lr_scheduler",), ("early_stopping",), ("val_data_loader", "shuffle")]}


def expand_default(impl: Impl, kind):
    """schema default tree of the builder's root class, with the optional sub-configs the builder
    always instantiates expanded to their class defaults"""
    d = json.loads(json.dumps(None))  # placeholder to keep linters quiet
    d = dict(impl.defaults[ROOT_CLASS[kind]])
    if kind == "trainer":
        d["early_stopping"] = impl.defaults["EarlyStoppingConfig"]
        d["lr_scheduler"] = impl.defaults["LRSchedulerConfig"]
    return d


CM_CLS = {"single_instance": "SingleInstanceConfMapsConfig", "centroid": "CentroidConfMapsConfig",
          "centered_instance": "CenteredInstanceConfMapsConfig", "bottomup": "BottomUpConfMapsConfig"}
PRESET_CLS = {"unet": "UNetConfig", "unet_medium_rf": "UNetMediumRFConfig", "unet_large_rf": "UNetLargeRFConfig",
              "convnext": "ConvNextConfig", "convnext_tiny": "ConvNextConfig", "convnext_small": "ConvNextSmallConfig",
              "convnext_base": "ConvNextBaseConfig", "convnext_large": "ConvNextLargeConfig", "swint": "SwinTConfig",
              "swint_tiny": "SwinTConfig", "swint_small": "SwinTSmallConfig", "swint_base": "SwinTBaseConfig"}


def rest_default(sub, supplied, dflt, label):
    """every option of a sub-configuration the caller did not supply equals the schema class default"""
    if not isinstance(sub, dict):
        return f"{label} is not set"
    if set(sub) != set(dflt):
        return f"keys of {label} differ from the schema's"
    for k, v in dflt.items():
        if k not in supplied and sub[k] != v:
            return f"option {label}.{k} = {untag(sub[k])!r} was not supplied, schema default is {untag(v)!r}"
    return None


# Documented defaults of the builders' parameters, pinned here from the docstrings of train.py ("Default: …");
# NOT read from the implementation.  Parameters whose docstring names no default are pinned from the signature
# as it was when this table was written (marked `# undocumented`) — trusted base.
DOC_DEFAULTS = {
    "data": {"test_file_path": None,  # undocumented
             "provider": "LabelsReader", "user_instances_only": True, "data_pipeline_fw": "torch_dataset",
             "np_chunks_path": None, "litdata_chunks_path": None, "use_existing_chunks": False, "chunk_size": 100,
             "delete_chunks_after_training": True, "is_rgb": False, "scale": 1.0, "max_height": None,
             "max_width": None, "crop_hw": None, "min_crop_size": 100, "use_augmentations_train": False,
             "intensity_aug": None, "geometry_aug": None},  # undocumented (last two)
    "model": {"init_weight": "default", "pre_trained_weights": None, "pretrained_backbone_weights": None,
              "pretrained_head_weights": None, "backbone_config": "unet", "head_configs": None},  # undocumented (last two)
    "trainer": {"batch_size": 4, "shuffle_train": False, "num_workers": 0, "ckpt_save_top_k": 1,
                "ckpt_save_last": False, "trainer_num_devices": "auto", "trainer_accelerator": "auto",
                "enable_progress_bar": False, "steps_per_epoch": None, "max_epochs": 100, "seed": 1000,
                "use_wandb": False, "save_ckpt": False, "save_ckpt_path": None, "resume_ckpt_path": None,
                "wandb_entity": None, "wandb_project": None, "wandb_name": None, "wandb_api_key": None,
                "wandb_mode": None, "wandb_resume_prv_runid": None, "wandb_group_name": None, "optimizer": "Adam",
                "learning_rate": 1e-3, "amsgrad": False, "lr_scheduler": None,  # lr_scheduler undocumented
                "early_stopping": False, "early_stopping_min_delta": 0.0, "early_stopping_patience": 1},
}
# F-C20e: where the signature contradicts its own docstring (docstring says False, signature says True)
SIG_CONTRADICTS_DOC = {"trainer": {"shuffle_train": True, "ckpt_save_last": True}}
# what the model is given for an argument the caller does not pass: the documented default, except F-C20e
EFFECTIVE_DEFAULTS = {k: {**v, **SIG_CONTRADICTS_DOC.get(k, {})} for k, v in DOC_DEFAULTS.items()}
UNIONS = {"backbone_config": ("unet", "convnext", "swint"), "head_configs": tuple(HEADS),
          "lr_scheduler": ("step_lr", "reduce_lr_on_plateau")}


def union_problem(arg, d):
    """a dict-form union argument that cannot be placed as a whole: more than one member given (non-None), or a
    key that is no member — the property then demands an error, not a silent drop"""
    if not isinstance(d, dict):
        return None
    members = UNIONS[arg]
    given = [k for k in members if d.get(k) is not None] if arg != "backbone_config" else [k for k in members if k in d]
    unknown = [k for k, v in d.items() if k not in members and v is not None]
    if len(given) > 1:
        return f"{arg} names {len(given)} types ({', '.join(given)})"
    if unknown:
        return f"{arg} has unknown key(s) {unknown}"
    return None


def oracle_builder(impl: Impl, kind, kw):
    """C20 on a data/model/trainer builder call with valid arguments.  Independent of the model and of the
    implementation's precedence rules: (1) every argument passed is read back at its documented place;
    (2) every parameter NOT passed has its documented default (DOC_DEFAULTS) there; (3) every option that is no
    parameter has the schema default, key sets are the schema's; (4) every supplied non-None sub-dict of a
    structured argument is reflected in full, with the rest at the schema class default — or the call raises.
    Returns a list of (why, signatures)."""
    fn = {"data": impl.tr.get_data_config, "model": impl.tr.get_model_config,
          "trainer": impl.tr.get_trainer_config}[kind]
    out_all = []

    def bad(why, *sigs):
        out_all.append((why, list(sigs)))

    r = impl.observe(fn, **kw)
    probs = [w for a in UNIONS if a in kw for w in [union_problem(a, kw[a])] if w]
    if r[0] == "raise":
        if not probs:
            b = kw.get("backbone_config")
            sig = []
            if kind == "model" and isinstance(b, str) and b in PRESETS and r[1] == "ValidationError" \
                    and not issubclass(*preset_classes(impl, b)):
                sig = ["preset_class_not_subclass"]
            bad(f"raised {r[1]} on valid arguments", *sig)
        return out_all
    for w in probs:
        bad(f"{w}: the call neither raises nor can it reflect all of them — silently dropped",
            "structured_argument_silently_dropped")
    out = r[1]
    doc = DOC_DEFAULTS[kind]
    dflt = expand_default(impl, kind)
    touched = []
    for a, where in PLACE[kind].items():
        for p in (where if isinstance(where, list) else [where]):
            touched.append(p)
            if a in kw:
                if get(out, p) != tag(kw[a]):
                    bad(f"argument {a}={kw[a]!r} not found at {'.'.join(p)} (there: {untag(get(out, p))!r})")
            elif get(out, p) != tag(doc[a]):
                contra = SIG_CONTRADICTS_DOC.get(kind, {})
                sig = ["signature_default_contradicts_doc"] if a in contra and get(out, p) == tag(contra[a]) else []
                bad(f"argument {a} not passed: {'.'.join(p)} = {untag(get(out, p))!r}, documented default is {doc[a]!r}", *sig)
    if kind == "trainer" and get(out, ("val_data_loader", "shuffle")) != ("b", False):
        bad("val_data_loader.shuffle is not False")
    for p, v in leaves(dflt):
        if p in touched or any(p[:len(c)] == c for c in COMPUTED[kind]):
            continue
        if get(out, p) != v:
            bad(f"option {'.'.join(p)} = {untag(get(out, p))!r}, schema default is {untag(v)!r}")

    def keyset(t, s, p=()):
        if isinstance(s, dict):
            if not isinstance(t, dict) or set(t) != set(s):
                return f"keys at {'.'.join(p) or '<root>'} differ from the schema's"
            for k in s:
                w = keyset(t[k], s[k], p + (k,))
                if w:
                    return w
        return None
    w = keyset(out, dflt)
    if w:
        bad(w)
        return out_all

    def reflected(sub, supplied, cls, label):
        """a supplied sub-dict is reflected in full; everything else is the schema class default"""
        if not isinstance(sub, dict):
            if not probs:
                bad(f"{label} was supplied ({supplied!r}) but is not set")
            return
        for k, v in supplied.items():
            if sub.get(k, "<absent>") != tag(v):
                bad(f"{label}[{k}]={v!r} not reflected (there: {untag(sub.get(k, '<absent>'))!r})")
        w = rest_default(sub, supplied, impl.defaults[cls], label)
        if w:
            bad(w)

    full = {**doc, **kw}
    if kind == "data":
        a = get(out, ("augmentation_config",))
        if full["use_augmentations_train"]:
            if not isinstance(a, dict):
                bad("use_augmentations_train is True but augmentation_config is not set")
                return out_all
            for n in aug_names(full["intensity_aug"], INT) or []:
                if a["intensity"][n + "_p"] != F(1):
                    bad(f"intensity augmentation {n} not enabled")
            for n in aug_names(full["geometry_aug"], GEO) or []:
                if not geo_enabled(n, a["geometric"]):
                    bad(f"geometric augmentation {n} not enabled")
            for nm, sub, c in (("intensity_aug", "intensity", "IntensityConfig"), ("geometry_aug", "geometric", "GeometricConfig")):
                if isinstance(full[nm], dict):
                    reflected(a[sub], full[nm], c, f"augmentation_config.{sub}")
                elif full[nm] is not None and not isinstance(full[nm], (str, list)):
                    if a[sub] == impl.defaults[c]:
                        bad(f"{nm}={full[nm]!r} (a {type(full[nm]).__name__}) is neither used nor rejected — silently dropped",
                            "structured_argument_silently_dropped")
                elif full[nm] is None and a[sub] != impl.defaults[c]:
                    bad(f"{nm} not passed: augmentation_config.{sub}: " + first_diff(a[sub], impl.defaults[c]) + " (schema default)")
        elif a is not None:
            bad("augmentation_config set although use_augmentations_train is False")
    if kind == "model":
        b, h = full["backbone_config"], full["head_configs"]
        bb, hd = out["backbone_config"], out["head_configs"]
        if isinstance(b, str):
            fam = "unet" if b.startswith("unet") else "convnext" if b.startswith("convnext") else "swint"
            if not isinstance(bb.get(fam), dict) or sum(v is not None for v in bb.values()) != 1:
                bad(f"preset {b}: backbone_config.{fam} is not the only backbone set")
            elif b in PRESET_CLS:
                w = rest_default(bb[fam], {}, impl.defaults[PRESET_CLS[b]], f"backbone_config.{fam} (preset {b})")
                if w:
                    bad(w)
        elif isinstance(b, dict):
            for fam in UNIONS["backbone_config"]:
                if fam in b and isinstance(b[fam], dict):
                    reflected(bb.get(fam), b[fam], BB_CLS[fam], f"backbone_config.{fam}")
            if sum(v is not None for v in bb.values()) > 1:
                bad("more than one backbone type set in the result")
        if isinstance(h, str):
            if not isinstance(hd.get(h), dict) or sum(v is not None for v in hd.values()) != 1:
                bad(f"head {h} is not the only head set")
            elif hd[h] != impl.defaults[HD_CLS[h]]:
                bad(f"head_configs.{h}: " + first_diff(hd[h], impl.defaults[HD_CLS[h]]) + " (schema default)")
        elif isinstance(h, dict):
            for name in HEADS:
                if isinstance(h.get(name), dict):
                    if not isinstance(hd.get(name), dict):
                        if not probs:
                            bad(f"head_configs.{name} was supplied but is not set")
                        continue
                    for layer, kws in h[name].items():
                        if layer in ("confmaps", "pafs") and isinstance(kws, dict):
                            c = CM_CLS[name] if layer == "confmaps" else "PAFConfig"
                            reflected(get(hd, (name, layer)), kws, c, f"head_configs.{name}.{layer}")
            if sum(v is not None for v in hd.values()) > 1:
                bad("more than one head type set in the result")
        elif h is None and any(v is not None for v in hd.values()):
            bad("head_configs not passed but a head type is set")
    if kind == "trainer":
        s = full["lr_scheduler"]
        ls = out["lr_scheduler"]
        if isinstance(s, str) and not isinstance(ls.get(s), dict):
            bad(f"lr_scheduler {s} not set")
        if isinstance(s, dict):
            for name, c in (("step_lr", "StepLRConfig"), ("reduce_lr_on_plateau", "ReduceLROnPlateauConfig")):
                if isinstance(s.get(name), dict):
                    reflected(ls.get(name), s[name], c, f"lr_scheduler.{name}")
        if s is None and any(v is not None for v in ls.values()):
            bad("lr_scheduler not passed but a scheduler is set")
    return out_all


def oracle_verify(impl: Impl, cfg):
    """normalisation + YAML round trip change no value; normalisation is idempotent"""
    OC = impl.OC
    c = OC.create(cfg)
    r = call(impl.tj.verify_training_cfg, c)
    if r[0] == "raise":
        return None  # incomplete / malformed input: not in the property's quantifier
    v = r[1]
    tv = tag(OC.to_container(v))
    for p, x in leaves(tag(cfg)):
        if get(tv, p) != x:
            return f"normalisation changed {'.'.join(p)}: {untag(x)!r} -> {untag(get(tv, p))!r}"
    r2 = call(impl.tj.verify_training_cfg, v)
    if r2[0] == "raise" or tag(OC.to_container(r2[1])) != tv:
        return "normalisation is not idempotent"
    with tempfile.TemporaryDirectory() as d:
        p = os.path.join(d, "c.yaml")
        OC.save(v, p)
        back = tag(OC.to_container(OC.load(p)))
        if back != tv:
            return "YAML save/load changed the configuration: " + first_diff(back, tv)
        # the other order: the caller's file first goes through YAML, then through normalisation
        p0 = os.path.join(d, "c0.yaml")
        OC.save(c, p0)
        loaded = OC.load(p0)
        tl = tag(OC.to_container(loaded))
        if tl != tag(cfg):
            return "YAML save/load changed the caller's configuration: " + first_diff(tl, tag(cfg))
        r3 = call(impl.tj.verify_training_cfg, loaded)
        if r3[0] == "raise":
            return f"normalisation raised {r3[1]} on the YAML copy of a configuration it accepts"
        t3 = tag(OC.to_container(r3[1]))
        if t3 != tv:
            return "load-then-normalise differs from normalise-then-save/load: " + first_diff(t3, tv)
    return None


# ------------------------------------------------------------------ generators
STRS = ["a.slp", "data/train set.pkg.slp", "", "vidéo.mp4", "x", "C:\\tmp\\v 1.slp", "100%",
        # text that YAML would read as another type if it were written unquoted
        "123", "true", "null", "2024-01-01", "1e-3", ".nan", "~", "0x1F", "yes", "line1\nline2"]


def gen_aug_arg(rng, names, dict_fields):
    k = rng.random()
    if k < 0.15:
        return None
    if k < 0.3:
        return rng.choice(names)
    if k < 0.75:
        n = rng.randrange(0, len(names) + 1)
        return rng.sample(names, n)
    if k < 0.85:
        return [rng.choice(names) for _ in range(rng.randrange(2, 5))]  # with repetitions
    return {f: g(rng) for f, g in rng.sample(sorted(dict_fields.items()), rng.randrange(0, 4))}


INT_FIELDS = {
    "uniform_noise_min": lambda r: r.choice([0.0, 0.1]), "uniform_noise_max": lambda r: r.choice([1.0, 0.5]),
    "uniform_noise_p": lambda r: r.choice([0.0, 0.5, 1.0]), "gaussian_noise_mean": lambda r: r.choice([0.0, 0.02, -1.5]),
    "gaussian_noise_std": lambda r: r.choice([1.0, 0.004]), "gaussian_noise_p": lambda r: r.choice([0.0, 0.25, 1.0]),
    "contrast_min": lambda r: r.choice([0.5, 0.0]), "contrast_max": lambda r: r.choice([2.0, 3.5]),
    "contrast_p": lambda r: r.choice([0.0, 1.0]), "brightness": lambda r: r.choice([(1.0, 1.0), (0.8, 1.2), [0.5, 2.0]]),
    "brightness_p": lambda r: r.choice([0.0, 0.75, 1.0]),
}
GEO_FIELDS = {
    "rotation": lambda r: r.choice([15.0, 180.0, 0.0]), "scale": lambda r: r.choice([(0.9, 1.1), [0.5, 1.5], None]),
    "translate_width": lambda r: r.choice([0.2, 0.0, 0.05]), "translate_height": lambda r: r.choice([0.2, 0.0, 0.1]),
    "affine_p": lambda r: r.choice([0.0, 1.0, 0.5]), "erase_scale_min": lambda r: r.choice([0.0001, 0.001]),
    "erase_scale_max": lambda r: r.choice([0.01, 0.1]), "erase_ratio_min": lambda r: r.choice([1.0, 0.5]),
    "erase_ratio_max": lambda r: r.choice([1.0, 2.0]), "erase_p": lambda r: r.choice([0.0, 1.0]),
    "mixup_lambda": lambda r: r.choice([[0.01, 0.05], [0.1, 0.2]]), "mixup_p": lambda r: r.choice([0.0, 1.0, 0.3]),
}
opt = lambda g: (lambda r: None if r.random() < 0.3 else g(r))
DATA_GEN = {
    "test_file_path": opt(lambda r: r.choice(STRS)), "provider": lambda r: r.choice(["LabelsReader", "VideoReader"]),
    "user_instances_only": lambda r: r.random() < 0.5,
    "data_pipeline_fw": lambda r: r.choice(["litdata", "torch_dataset", "torch_dataset_np_chunks"]),
    "np_chunks_path": opt(lambda r: r.choice(STRS)), "litdata_chunks_path": opt(lambda r: r.choice(STRS)),
    "use_existing_chunks": lambda r: r.random() < 0.5, "chunk_size": lambda r: r.choice([1, 50, 100, 4096]),
    "delete_chunks_after_training": lambda r: r.random() < 0.5, "is_rgb": lambda r: r.random() < 0.5,
    "scale": lambda r: r.choice([1.0, 0.5, 0.25, 2.0, 0.0, 0.3]),
    "max_height": opt(lambda r: r.choice([1, 384, 1024])), "max_width": opt(lambda r: r.choice([1, 384, 1024])),
    "crop_hw": opt(lambda r: r.choice([(160, 160), [96, 128], (1, 2)])), "min_crop_size": opt(lambda r: r.choice([0, 100, 8])),
    "use_augmentations_train": lambda r: r.random() < 0.6,
    "intensity_aug": lambda r: gen_aug_arg(r, INT, INT_FIELDS), "geometry_aug": lambda r: gen_aug_arg(r, GEO, GEO_FIELDS),
}
UNET_F = {"in_channels": lambda r: r.choice([1, 3]), "kernel_size": lambda r: r.choice([3, 5]),
          "filters": lambda r: r.choice([8, 16, 64]), "filters_rate": lambda r: r.choice([1.5, 2.0]),
          "max_stride": lambda r: r.choice([8, 16, 32]), "stem_stride": opt(lambda r: r.choice([2, 4])),
          "middle_block": lambda r: r.random() < 0.5, "up_interpolate": lambda r: r.random() < 0.5,
          "stacks": lambda r: r.choice([1, 2]), "convs_per_block": lambda r: r.choice([1, 2, 3]),
          "output_stride": lambda r: r.choice([1, 2, 4])}
CONVNEXT_F = {"model_type": lambda r: r.choice(["tiny", "small", "base", "large"]),
              "arch": lambda r: r.choice([{"depths": [3, 3, 9, 3], "channels": [96, 192, 384, 768]},
                                          {"depths": [2, 2], "channels": [8, 16]}]),
              "stem_patch_kernel": lambda r: r.choice([4, 2]), "stem_patch_stride": lambda r: r.choice([2, 4]),
              "in_channels": lambda r: r.choice([1, 3]), "kernel_size": lambda r: 3, "filters_rate": lambda r: r.choice([2.0, 1.5]),
              "convs_per_block": lambda r: r.choice([2, 1]), "up_interpolate": lambda r: r.random() < 0.5,
              "output_stride": lambda r: r.choice([1, 2]), "max_stride": lambda r: r.choice([16, 32])}
SWINT_F = {"model_type": lambda r: r.choice(["tiny", "small", "base"]),
           "patch_size": lambda r: r.choice([[4, 4], [2, 2]]), "stem_patch_stride": lambda r: r.choice([2, 4]),
           "window_size": lambda r: r.choice([[7, 7], [5, 5]]), "in_channels": lambda r: r.choice([1, 3]),
           "kernel_size": lambda r: 3, "filters_rate": lambda r: r.choice([2.0, 1.5]),
           "convs_per_block": lambda r: 2, "up_interpolate": lambda r: r.random() < 0.5,
           "output_stride": lambda r: r.choice([1, 4]), "max_stride": lambda r: r.choice([16, 32])}
BB_F = {"unet": UNET_F, "convnext": CONVNEXT_F, "swint": SWINT_F}
CM_F = {"part_names": opt(lambda r: r.choice([["a", "b"], ["head", "thorax", "abd omen"], []])),
        "anchor_part": opt(lambda r: r.choice([0, 2])), "sigma": lambda r: r.choice([5.0, 2.5, 1.0]),
        "output_stride": lambda r: r.choice([1, 2, 4]), "loss_weight": opt(lambda r: r.choice([1.0, 0.5]))}
HEAD_FIELDS = {"single_instance": ["part_names", "sigma", "output_stride"],
               "centroid": ["anchor_part", "sigma", "output_stride"],
               "centered_instance": ["part_names", "anchor_part", "sigma", "output_stride"],
               "bottomup": ["part_names", "sigma", "output_stride", "loss_weight"]}
PAF_F = {"edges": opt(lambda r: r.choice([[["a", "b"]], [["a", "b"], ["b", "c"]], []])),
         "sigma": lambda r: r.choice([15.0, 4.0]), "output_stride": lambda r: r.choice([1, 4]),
         "loss_weight": opt(lambda r: r.choice([1.0, 2.0]))}


def pick(rng, fields, names=None, lo=0, hi=4):
    names = sorted(names or fields)
    return {k: fields[k](rng) for k in rng.sample(names, rng.randrange(lo, min(hi, len(names)) + 1))}


def gen_backbone(rng):
    k = rng.random()
    if k < 0.45:
        return rng.choice(PRESETS)
    fams = rng.sample(["unet", "convnext", "swint"], rng.choice([1, 1, 1, 2]))
    return {f: pick(rng, BB_F[f]) for f in fams}


def gen_head(rng):
    k = rng.random()
    if k < 0.1:
        return None
    if k < 0.45:
        return rng.choice(HEADS)
    d = {}
    for h in rng.sample(HEADS, rng.choice([1, 1, 2, 3])):
        if rng.random() < 0.2:
            d[h] = None
            continue
        d[h] = {"confmaps": pick(rng, CM_F, HEAD_FIELDS[h])}
        if h == "bottomup":
            d[h]["pafs"] = pick(rng, PAF_F)
    return d


def gen_lrs(rng):
    k = rng.random()
    if k < 0.25:
        return None
    if k < 0.5:
        return rng.choice(["step_lr", "reduce_lr_on_plateau"])
    step = {"step_lr": pick(rng, {"step_size": lambda r: r.choice([1, 10, 20]), "gamma": lambda r: r.choice([0.1, 0.5])})}
    red = {"reduce_lr_on_plateau": pick(rng, {
        "threshold": lambda r: r.choice([1e-4, 1e-6]), "threshold_mode": lambda r: r.choice(["rel", "abs"]),
        "cooldown": lambda r: r.choice([0, 3]), "patience": lambda r: r.choice([10, 5]),
        "factor": lambda r: r.choice([0.1, 0.5]), "min_lr": lambda r: r.choice([0.0, 1e-8, [0.0, 1e-5]])})}
    none_s, none_r = {"step_lr": None}, {"reduce_lr_on_plateau": None}
    return rng.choice([step, red, {**step, **red}, {**red, **step}, {**none_s, **red}, {**none_r, **step},
                       {**none_s, **none_r}, {}])


MODEL_GEN = {
    "init_weight": lambda r: r.choice(["default", "xavier"]),
    "pretrained_backbone_weights": opt(lambda r: r.choice(["ckpt/best.ckpt", "b w.ckpt"])),
    "pretrained_head_weights": opt(lambda r: r.choice(["ckpt/best.ckpt", "h.ckpt"])),
    "backbone_config": gen_backbone, "head_configs": gen_head,
}
TRAINER_GEN = {
    "batch_size": lambda r: r.choice([1, 4, 16]), "shuffle_train": lambda r: r.random() < 0.5,
    "num_workers": lambda r: r.choice([0, 2, 8]), "ckpt_save_top_k": lambda r: r.choice([1, 3, -1]),
    "ckpt_save_last": lambda r: r.choice([True, False, None]),
    "trainer_num_devices": lambda r: r.choice(["auto", 1, 2, 0, [0, 1], [3]]),
    "trainer_accelerator": lambda r: r.choice(["auto", "cpu", "gpu"]), "enable_progress_bar": lambda r: r.random() < 0.5,
    "steps_per_epoch": opt(lambda r: r.choice([1, 10, 200])), "max_epochs": lambda r: r.choice([1, 10, 100]),
    "seed": opt(lambda r: r.choice([0, 1000, 42])), "use_wandb": lambda r: r.random() < 0.5,
    "save_ckpt": lambda r: r.random() < 0.5, "save_ckpt_path": opt(lambda r: r.choice(STRS)),
    "resume_ckpt_path": opt(lambda r: r.choice(STRS)), "wandb_entity": opt(lambda r: "ent"),
    "wandb_project": opt(lambda r: "my proj"), "wandb_name": opt(lambda r: "run-1"),
    "wandb_api_key": opt(lambda r: "k3y"), "wandb_mode": opt(lambda r: r.choice(["offline", "online"])),
    "wandb_resume_prv_runid": opt(lambda r: "abc123"), "wandb_group_name": opt(lambda r: "g"),
    "optimizer": lambda r: r.choice(["Adam", "AdamW"]), "learning_rate": lambda r: r.choice([1e-3, 1e-4, 0.5, 3e-5]),
    "amsgrad": lambda r: r.random() < 0.5, "lr_scheduler": gen_lrs, "early_stopping": lambda r: r.random() < 0.5,
    "early_stopping_min_delta": lambda r: r.choice([0.0, 1e-8, 0.01]), "early_stopping_patience": lambda r: r.choice([0, 1, 10]),
}


# integers / floats a caller may pass: the builders must store them UNCHANGED (value and type)
INT_EDGE = [-1, -(2 ** 31) - 1, 2 ** 31 - 1, 2 ** 31 + 1, 2 ** 32, 2 ** 32 + 1000, 2 ** 53 + 1, 2 ** 63]
INT_EDGE_NONNEG = [v for v in INT_EDGE if v >= 0]
INT_EDGE_POS = [v for v in INT_EDGE if v > 0]
FLOAT_EDGE_POS = [0.1, 1 / 3, 2 / 3, 1e300, 5e-324, 1e-12, 1.7976931348623157e308, 123456.789, 3.0000000000000004]
FLOAT_EDGE_ANY = FLOAT_EDGE_POS + [-0.1, -1 / 3, -1e300]
# which builder arguments are integer- / float-valued, and what the validators leave open
INT_ARGS = {"data": {"chunk_size": INT_EDGE, "max_height": INT_EDGE, "max_width": INT_EDGE, "min_crop_size": INT_EDGE},
            "trainer": {"batch_size": INT_EDGE, "num_workers": INT_EDGE, "ckpt_save_top_k": INT_EDGE,
                        "steps_per_epoch": INT_EDGE, "max_epochs": INT_EDGE, "seed": INT_EDGE,
                        "early_stopping_patience": INT_EDGE_NONNEG, "trainer_num_devices": INT_EDGE_NONNEG},
            "model": {}}
FLOAT_ARGS = {"data": {"scale": FLOAT_EDGE_POS}, "model": {},
              "trainer": {"learning_rate": FLOAT_EDGE_POS, "early_stopping_min_delta": FLOAT_EDGE_POS}}


def widen(g, extra, p=0.3):
    return lambda r: r.choice(extra) if r.random() < p else g(r)


for _k, _t in (("data", DATA_GEN), ("trainer", TRAINER_GEN)):
    for _a, _e in {**INT_ARGS[_k], **FLOAT_ARGS[_k]}.items():
        _t[_a] = widen(_t[_a], _e)
DATA_GEN["crop_hw"] = widen(DATA_GEN["crop_hw"], [(2 ** 32, 2 ** 53 + 1), (-1, 5), [2 ** 63, 1]], 0.2)
for _t, _ints, _floats in (
        (UNET_F, ["in_channels", "kernel_size", "filters", "max_stride", "stem_stride", "stacks", "convs_per_block",
                  "output_stride"], ["filters_rate"]),
        (CONVNEXT_F, ["stem_patch_kernel", "stem_patch_stride", "in_channels", "output_stride", "max_stride"], ["filters_rate"]),
        (SWINT_F, ["stem_patch_stride", "in_channels", "output_stride", "max_stride"], ["filters_rate"]),
        (CM_F, ["anchor_part", "output_stride"], ["sigma", "loss_weight"]),
        (PAF_F, ["output_stride"], ["sigma", "loss_weight"]),
        (INT_FIELDS, [], ["gaussian_noise_mean", "gaussian_noise_std"]),
        (GEO_FIELDS, [], ["rotation", "erase_scale_min", "erase_scale_max", "erase_ratio_min", "erase_ratio_max"])):
    for _a in _ints:
        _t[_a] = widen(_t[_a], INT_EDGE, 0.15)
    for _a in _floats:
        _t[_a] = widen(_t[_a], FLOAT_EDGE_ANY if _a in ("gaussian_noise_mean", "rotation") else FLOAT_EDGE_POS, 0.15)


def number_cases():
    """every integer- / float-valued builder argument, alone, with every edge value"""
    D = {"train_labels_path": "t.slp", "val_labels_path": "v.slp"}
    for kind in ("data", "trainer"):
        for a, vals in {**INT_ARGS[kind], **FLOAT_ARGS[kind]}.items():
            for v in vals:
                yield {"op": kind, "kw": {**(D if kind == "data" else {}), a: v}}
    for v in [(2 ** 32, 2 ** 53 + 1), (-1, 5), [2 ** 63, 1]]:
        yield {"op": "data", "kw": {**D, "crop_hw": v}}
    yield {"op": "trainer", "kw": {"trainer_num_devices": [2 ** 32, 2 ** 63]}}
    for v in INT_EDGE_POS:
        yield {"op": "trainer", "kw": {"lr_scheduler": {"step_lr": {"step_size": v}}}}
    for v in INT_EDGE:
        yield {"op": "trainer", "kw": {"lr_scheduler": {"reduce_lr_on_plateau": {"cooldown": v, "patience": v}}}}
        yield {"op": "model", "kw": {"backbone_config": {"unet": {"filters": v, "max_stride": v}},
                                     "head_configs": {"centroid": {"confmaps": {"anchor_part": v, "output_stride": v}}}}}
    for v in FLOAT_EDGE_POS:
        yield {"op": "trainer", "kw": {"lr_scheduler": {"step_lr": {"gamma": v}}}}
        yield {"op": "trainer", "kw": {"lr_scheduler": {"reduce_lr_on_plateau": {"threshold": v, "factor": v, "min_lr": v}}}}
        yield {"op": "model", "kw": {"backbone_config": {"unet": {"filters_rate": v}},
                                     "head_configs": {"bottomup": {"confmaps": {"sigma": v, "loss_weight": v}, "pafs": {"sigma": v}}}}}


def gen_kw(rng, table, always=()):
    kw = {}
    dense = rng.random() < 0.35
    for k, g in table.items():
        if k in always or rng.random() < (0.9 if dense else 0.3):
            kw[k] = g(rng)
    return kw


def valid_pretrained(rng, kw):
    """a `pre_trained_weights` value compatible with the backbone choice"""
    b = kw.get("backbone_config", "unet")
    fam = None
    if isinstance(b, str):
        fam = "unet" if b.startswith("unet") else "convnext" if b.startswith("convnext") else "swint"
    elif isinstance(b, dict):
        fam = next((f for f in ("unet", "convnext", "swint") if f in b), None)
    if fam == "convnext":
        return rng.choice([None, "ConvNeXt_Tiny_Weights", "ConvNeXt_Large_Weights"])
    if fam == "swint":
        return rng.choice([None, "Swin_T_Weights", "Swin_B_Weights"])
    if fam is None:
        return rng.choice([None, "anything"])
    return None


# invalid single-field values: (class, field, bad values, builder route or None)
INVALID = [
    ("PreprocessingConfig", "scale", [-1.0, -0.25, 1, [1.0, -2.0], "big"], ("data", "scale")),
    ("IntensityConfig", "uniform_noise_min", [-0.1, -5.0], ("data.intensity_aug", "uniform_noise_min")),
    ("IntensityConfig", "uniform_noise_max", [1.5, 2.0], ("data.intensity_aug", "uniform_noise_max")),
    ("IntensityConfig", "uniform_noise_p", [-0.1, 1.01, 2.0], ("data.intensity_aug", "uniform_noise_p")),
    ("IntensityConfig", "gaussian_noise_p", [-0.1, 1.5], ("data.intensity_aug", "gaussian_noise_p")),
    ("IntensityConfig", "contrast_min", [-0.5], ("data.intensity_aug", "contrast_min")),
    ("IntensityConfig", "contrast_max", [-2.0], ("data.intensity_aug", "contrast_max")),
    ("IntensityConfig", "contrast_p", [-1.0, 3.0], ("data.intensity_aug", "contrast_p")),
    ("IntensityConfig", "brightness_p", [-0.001, 1.001], ("data.intensity_aug", "brightness_p")),
    ("GeometricConfig", "affine_p", [-0.5, 2.0], ("data.geometry_aug", "affine_p")),
    ("GeometricConfig", "erase_p", [-0.5, 1.25], ("data.geometry_aug", "erase_p")),
    ("GeometricConfig", "mixup_p", [-1.0, 7.0], ("data.geometry_aug", "mixup_p")),
    ("SwinTConfig", "model_type", ["large", "huge", ""], ("model.backbone.swint", "model_type")),
    ("ConvNextConfig", "model_type", ["huge", "", "Tiny", "xl"], ("model.backbone.convnext", "model_type")),
    ("ConvNextSmallConfig", "model_type", ["huge"], None), ("ConvNextBaseConfig", "model_type", ["huge"], None),
    ("ConvNextLargeConfig", "model_type", ["huge"], None),
    ("GeometricConfig", "scale", [(-1.0, 2.0), (1.0,), [0.5, -0.1], [1.0, 1.0, 1.0]], ("data.geometry_aug", "scale")),
    ("SwinTSmallConfig", "model_type", ["large"], None),
    ("SwinTBaseConfig", "model_type", ["xl"], None),
    ("OptimizerConfig", "lr", [0.0, -1e-3], ("trainer", "learning_rate")),
    ("StepLRConfig", "step_size", [0, -5], ("trainer.lr_scheduler.step_lr", "step_size")),
    ("ReduceLROnPlateauConfig", "min_lr", [-1e-6, 1, [1e-5, -1.0], "low"],
     ("trainer.lr_scheduler.reduce_lr_on_plateau", "min_lr")),
    ("EarlyStoppingConfig", "min_delta", [-0.1], ("trainer", "early_stopping_min_delta")),
    ("EarlyStoppingConfig", "patience", [-1], ("trainer", "early_stopping_patience")),
    ("TrainerConfig", "trainer_devices", [-1, "cpu", [0, -1], 1.5], ("trainer", "trainer_num_devices")),
    ("TrainerConfig", "optimizer_name", ["SGD", "adam", ""], ("trainer", "optimizer")),
]
VALID_EDGE = [
    ("PreprocessingConfig", "scale", [0.0, 1.0]), ("IntensityConfig", "uniform_noise_p", [0.0, 1.0]),
    ("IntensityConfig", "uniform_noise_min", [0.0]), ("IntensityConfig", "uniform_noise_max", [1.0]),
    ("GeometricConfig", "affine_p", [0.0, 1.0]), ("OptimizerConfig", "lr", [1e-12]),
    ("StepLRConfig", "step_size", [1]), ("ReduceLROnPlateauConfig", "min_lr", [0.0, [0.0, 1e-3]]),
    ("EarlyStoppingConfig", "min_delta", [0.0]), ("EarlyStoppingConfig", "patience", [0]),
    ("TrainerConfig", "trainer_devices", [0, [0], "auto"]), ("TrainerConfig", "optimizer_name", ["AdamW"]),
    ("SwinTConfig", "model_type", ["tiny", "small", "base"]),
    ("ConvNextConfig", "model_type", ["tiny", "small", "base", "large"]),
    ("GeometricConfig", "scale", [None, [0.9, 1.1], (0.5, 1.5), [0.9, 1.1, 0.8, 1.2]]),
]


ONEOF_ORDER = {}      # class -> field names in attrs.fields order; filled in main from the working tree


def fields_in_order(cls, fields):
    return [f for f in ONEOF_ORDER.get(cls, sorted(fields)) if f in fields]


def invalid_cases():
    for cls, f, bads, route in INVALID:
        for b in bads:
            yield {"op": "mk", "cls": cls, "kw": {f: b}, "expect": "reject", "field": f"{cls}.{f}"}
            if route is None:
                continue
            where, a = route
            if where in ("data", "trainer"):
                kw = {a: b}
                if where == "data":
                    kw.update(train_labels_path="t.slp", val_labels_path="v.slp")
                yield {"op": where, "kw": kw, "expect": "reject", "field": f"{cls}.{f}"}
            elif where.startswith("data."):
                yield {"op": "data", "kw": {"train_labels_path": "t.slp", "val_labels_path": "v.slp",
                                            "use_augmentations_train": True, where.split(".")[1]: {a: b}},
                       "expect": "reject", "field": f"{cls}.{f}"}
            elif where.startswith("model.backbone."):
                yield {"op": "model", "kw": {"backbone_config": {where.split(".")[2]: {a: b}}},
                       "expect": "reject", "field": f"{cls}.{f}"}
            elif where.startswith("trainer.lr_scheduler."):
                yield {"op": "trainer", "kw": {"lr_scheduler": {where.split(".")[2]: {a: b}}},
                       "expect": "reject", "field": f"{cls}.{f}"}
    for cls, f, goods in VALID_EDGE:
        for g in goods:
            yield {"op": "mk", "cls": cls, "kw": {f: g}, "expect": "accept", "field": f"{cls}.{f}"}
    bb = {"unet": "UNetConfig", "convnext": "ConvNextConfig", "swint": "SwinTConfig"}
    hd = {"single_instance": "SingleInstanceConfig", "centroid": "CentroidConfig",
          "centered_instance": "CenteredInstanceConfig", "bottomup": "BottomUpConfig"}
    for cls, fields in (("BackboneConfig", bb), ("HeadConfig", hd)):
        for n in range(0, len(fields) + 1):
            for sub in itertools.combinations(sorted(fields), n):
                yield {"op": "oneof", "cls": cls, "set": {f: fields[f] for f in sub},
                       "expect": "reject" if n > 1 else "accept", "field": f"{cls}.oneof"}
    # the same verdict however the members are passed: positional, mixed positional / keyword (every @oneof class)
    for cls, fields in (("BackboneConfig", bb), ("HeadConfig", hd)):
        order = list(fields_in_order(cls, fields))
        for n in range(0, 4):
            for sub in itertools.combinations(order, n):
                for pos in range(1, len(order) + 1):
                    yield {"op": "oneof", "cls": cls, "set": {f: fields[f] for f in sub}, "pos": pos,
                           "expect": "reject" if n > 1 else "accept", "field": f"{cls}.oneof",
                           "shown": f"{cls}(" + ", ".join([(fields[f] + "()" if f in sub else "None") for f in order[:pos]] +
                                                          [f"{f}={fields[f]}()" for f in sub if f not in order[:pos]]) + ")"}
    # pre-trained weights must match the backbone family
    for b, w, exp in [("unet", "Swin_T_Weights", "reject"), ("convnext", "Swin_T_Weights", "reject"),
                      ("swint", "ConvNeXt_Tiny_Weights", "reject"), ("swint", "Swin_S_Weights", "accept"),
                      ("convnext_tiny", "ConvNeXt_Base_Weights", "accept"), ("unet", None, "accept"),
                      ({"convnext": {}}, "bogus", "reject"), ({}, "bogus", "accept")]:
        yield {"op": "model", "kw": {"backbone_config": b, "pre_trained_weights": w, "head_configs": "centroid"},
               "expect": exp, "field": "ModelConfig.pre_trained_weights"}


# ---- edge values (NaN, +-inf, bool, None, str) for every validated field -------------------------
# what each validated field is, restated from the docs (independent of the model's rule table)
KIND = {
    ("PreprocessingConfig", "scale"): "floats",
    ("IntensityConfig", "uniform_noise_min"): "lower", ("IntensityConfig", "uniform_noise_max"): "upper",
    ("IntensityConfig", "uniform_noise_p"): "prob", ("IntensityConfig", "gaussian_noise_p"): "prob",
    ("IntensityConfig", "contrast_min"): "lower", ("IntensityConfig", "contrast_max"): "lower",
    ("IntensityConfig", "contrast_p"): "prob", ("IntensityConfig", "brightness_p"): "prob",
    ("GeometricConfig", "affine_p"): "prob", ("GeometricConfig", "erase_p"): "prob", ("GeometricConfig", "mixup_p"): "prob",
    ("ConvNextConfig", "model_type"): "choice", ("ConvNextSmallConfig", "model_type"): "choice",
    ("ConvNextBaseConfig", "model_type"): "choice", ("ConvNextLargeConfig", "model_type"): "choice",
    ("GeometricConfig", "scale"): "interval",
    ("SwinTConfig", "model_type"): "choice", ("SwinTSmallConfig", "model_type"): "choice",
    ("SwinTBaseConfig", "model_type"): "choice",
    ("OptimizerConfig", "lr"): "lower", ("StepLRConfig", "step_size"): "lower",
    ("ReduceLROnPlateauConfig", "min_lr"): "floats",
    ("EarlyStoppingConfig", "min_delta"): "lower", ("EarlyStoppingConfig", "patience"): "lower",
    ("TrainerConfig", "trainer_devices"): "devices", ("TrainerConfig", "optimizer_name"): "choice",
}
# (python value | None, YAML literal | None, label)
EDGE_VALUES = [(NAN, ".nan", "nan"), (INF, ".inf", "inf"), (-INF, "-.inf", "-inf"), (True, "true", "True"),
               (False, "false", "False"), (None, "null", "None"), ("0.5", "'0.5'", "'0.5'"), ("x", "x", "'x'"),
               ([NAN], "[.nan]", "[nan]"), ([0.5, NAN], "[0.5, .nan]", "[0.5, nan]"), ([-INF], "[-.inf]", "[-inf]"),
               (2.0, "2.0", "2.0"), (-1.0, "-1.0", "-1.0")]
# builder routes: (class, field) -> (builder, dotted path of the keyword that carries the value, fixed kwargs)
_D = {"train_labels_path": "t.slp", "val_labels_path": "v.slp"}
ROUTES = {
    ("PreprocessingConfig", "scale"): ("data", "scale", _D),
    **{("IntensityConfig", f): ("data", f"intensity_aug.{f}", {**_D, "use_augmentations_train": True})
       for (c, f) in KIND if c == "IntensityConfig"},
    **{("GeometricConfig", f): ("data", f"geometry_aug.{f}", {**_D, "use_augmentations_train": True})
       for (c, f) in KIND if c == "GeometricConfig"},
    ("SwinTConfig", "model_type"): ("model", "backbone_config.swint.model_type", {}),
    ("ConvNextConfig", "model_type"): ("model", "backbone_config.convnext.model_type", {}),
    ("OptimizerConfig", "lr"): ("trainer", "learning_rate", {}),
    ("StepLRConfig", "step_size"): ("trainer", "lr_scheduler.step_lr.step_size", {}),
    ("ReduceLROnPlateauConfig", "min_lr"): ("trainer", "lr_scheduler.reduce_lr_on_plateau.min_lr", {}),
    ("EarlyStoppingConfig", "min_delta"): ("trainer", "early_stopping_min_delta", {}),
    ("EarlyStoppingConfig", "patience"): ("trainer", "early_stopping_patience", {}),
    ("TrainerConfig", "trainer_devices"): ("trainer", "trainer_num_devices", {}),
    ("TrainerConfig", "optimizer_name"): ("trainer", "optimizer", {}),
}


def edge_expect(kind, v):
    """The property on one value of a validated field: 'reject' (must raise), or None where the property is
    silent (e.g. +inf for a one-sided ">= 0" rule, True == 1 for a probability).  Not derived from the model:
    out-of-range or non-finite probability must raise; NaN must raise everywhere; a value of the wrong kind
    (None, text, list for a number) must raise."""
    isnum = isinstance(v, (int, float)) and not isinstance(v, bool)
    has_nan = (isinstance(v, float) and v != v) or (isinstance(v, list) and any(isinstance(x, float) and x != x for x in v))
    if kind == "choice":
        return "reject"                       # none of the edge values is one of the allowed names
    if has_nan:
        return "reject"
    if kind == "prob":
        if isnum:
            return "reject" if not (0.0 <= v <= 1.0) else None
        return None if isinstance(v, bool) else "reject"
    if kind in ("lower", "upper"):
        if isnum:
            if v in (INF, -INF):
                return "reject" if (v < 0) == (kind == "lower") else None
            return "reject" if (kind == "lower" and v < 0) or (kind == "upper" and v > 1) else None
        return None if isinstance(v, bool) else "reject"
    if kind == "floats":
        if isinstance(v, float):
            return "reject" if v < 0 else None
        if isinstance(v, list) and v and all(isinstance(x, float) for x in v):
            return "reject" if any(x < 0 for x in v) else None
        return "reject"                       # bool / None / text are not floats
    if kind == "interval":      # GeometricConfig.scale: None, or 2 (or 4) finite non-negative numbers
        if v is None:
            return None
        if isinstance(v, (list, tuple)) and len(v) in (2, 4) and \
                all(isinstance(x, (int, float)) and not isinstance(x, bool) and 0 <= x < INF for x in v):
            return None
        return "reject"
    if kind == "devices":
        if isinstance(v, bool):
            return None
        if isinstance(v, int):
            return "reject" if v < 0 else None
        return "reject"                       # floats (incl. non-finite), None, text other than "auto"
    return None


def put(d, path, v):
    ks = path.split(".")
    for k in ks[:-1]:
        d = d.setdefault(k, {})
    d[ks[-1]] = v


def edge_cases():
    for (cls, f), kind in KIND.items():
        for v, lit, label in EDGE_VALUES:
            exp = edge_expect(kind, v)
            base = {"expect": exp, "field": f"{cls}.{f}", "shown": label} if exp else {"field": f"{cls}.{f}", "shown": label}
            yield {"op": "ctor", "cls": cls, "kw": {f: v}, **base}                       # constructor path
            yield {"op": "ctor", "cls": cls, "kw": {}, "yaml": {f: lit}, **base}         # value loaded from YAML
            if (cls, f) in ROUTES:
                fn, path, fixed = ROUTES[(cls, f)]
                kw = json.loads(json.dumps(fixed))
                put(kw, path, v)
                yield {"op": "bctor", "fn": fn, "kw": kw, **base}                          # builder (dict-form) path
                yield {"op": "bctor", "fn": fn, "kw": json.loads(json.dumps(fixed)), "yaml": {path: lit}, **base}


BB_CLS = {"unet": "UNetConfig", "convnext": "ConvNextConfig", "swint": "SwinTConfig"}
HD_CLS = {"single_instance": "SingleInstanceConfig", "centroid": "CentroidConfig",
          "centered_instance": "CenteredInstanceConfig", "bottomup": "BottomUpConfig"}


def which_cases(chk: Check):
    """construct a valid union object, assign attributes, ask which type is set"""
    rng = chk.rng
    for cls, fields in (("BackboneConfig", BB_CLS), ("HeadConfig", HD_CLS)):
        inits = [{}] + [{f: c} for f, c in fields.items()]
        one = [[f, c] for f, cc in fields.items() for c in (cc, None)]
        seqs = [[a] for a in one] + [[a, b] for a in one for b in one]
        if cls == "HeadConfig" and not chk.thorough:
            seqs = [[a] for a in one] + rng.sample([[a, b] for a in one for b in one], 24)
        for init in inits:
            for seq in seqs:
                for mode in ("name", "value"):
                    yield {"op": "which", "cls": cls, "init": init, "assign": seq, "mode": mode}


SCHEMA_CLASSES = []      # filled in main from the working tree (every attrs class that has a no-argument constructor)


def assign_cases(chk: Check, impl: Impl):
    """obj.field = value for EVERY attrs config class and EVERY field with a validator (by introspection), for every
    value of the invalid-value stream and the valid boundary values, on (a) a fresh default object and (b) every node of
    that class inside what the three builders return"""
    import attrs

    validated = {}
    for n, c in sorted(impl.classes.items()):
        fs = [a.name for a in attrs.fields(c) if a.validator is not None]
        if fs:
            validated[n] = fs
    extra = {}
    for cls, f, bads, _ in INVALID:
        extra.setdefault((cls, f), []).extend(bads)
    for cls, f, goods in VALID_EDGE:
        extra.setdefault((cls, f), []).extend(goods)
    extra[("ModelConfig", "pre_trained_weights")] = ["Swin_T_Weights", "ConvNeXt_Tiny_Weights", "bogus", None]

    def values(cls, f):
        vs = [v for v, _, _ in EDGE_VALUES] + extra.get((cls, f), [])
        return vs

    D = {"train_labels_path": "t.slp", "val_labels_path": "v.slp"}
    builders = [
        ("data", {**D, "use_augmentations_train": True, "intensity_aug": ["contrast"], "geometry_aug": ["rotation", "mixup"]}),
        ("model", {"backbone_config": "swint", "head_configs": "bottomup"}),
        ("model", {"backbone_config": {"convnext": {"model_type": "small"}}, "head_configs": "centroid",
                   "pre_trained_weights": "ConvNeXt_Small_Weights"}),
        ("model", {"backbone_config": "unet_medium_rf"}),
        ("trainer", {"lr_scheduler": "step_lr", "early_stopping": True}),
        ("trainer", {"lr_scheduler": {"reduce_lr_on_plateau": {"min_lr": 1e-6}}, "trainer_num_devices": 2}),
    ]

    def nodes(obj, path=()):
        if hasattr(obj, "__attrs_attrs__"):
            yield path, obj
            for a in obj.__attrs_attrs__:
                yield from nodes(getattr(obj, a.name), path + (a.name,))

    for cls, fs in validated.items():
        for f in fs:
            for v in values(cls, f):
                yield {"op": "assign", "cls": cls, "src": "default", "field": f, "value": v}
    for b, kw in builders:
        root = getattr(impl.tr, f"get_{b}_config")(**kw)
        for path, node in nodes(root):
            cls = type(node).__name__
            for f in validated.get(cls, []):
                vs = values(cls, f)
                if not chk.thorough:
                    vs = vs[:13:2] + vs[13:]          # every other edge value + all field-specific ones
                for v in vs:
                    yield {"op": "assign", "cls": cls, "src": {"builder": b, "kw": kw, "path": list(path)},
                           "field": f, "value": v}


def train_cases(chk: Check, impl: Impl):
    """the public entry point: every optional parameter of train()'s signature ALONE (list derived by introspection, so
    a new parameter is picked up), plus random subsets"""
    rng = chk.rng
    D = {"train_labels_path": "t.slp", "val_labels_path": "v.slp"}
    gens = {**DATA_GEN, **MODEL_GEN, **TRAINER_GEN, "pre_trained_weights": lambda r: None}
    params = inspect.signature(impl.tr.train).parameters
    builder_params = set()
    for k in ("data", "model", "trainer"):
        builder_params |= set(inspect.signature(getattr(impl.tr, f"get_{k}_config")).parameters)
    for n, p in params.items():
        if n not in builder_params:
            chk.fail(f"C20 fails on train: parameter {n!r} of train() is not a parameter of any builder — where does it go?",
                     {"op": "train", "kw": {**D, n: None}}, None)
    yield {"op": "train", "kw": dict(D), "kind": "no optional argument"}
    for n, p in params.items():
        if p.default is inspect._empty:
            continue
        g = gens.get(n)
        vals = []
        if g is not None:
            for _ in range(12):
                v = g(rng)
                if tag_or(v) != tag_or(p.default) and not any(tag_or(v) == tag_or(w) for w in vals):
                    vals.append(v)
                if len(vals) == 2:
                    break
        else:   # a parameter this harness has no generator for: still exercise it, with a value of the default's type
            d = p.default
            vals = [not d if isinstance(d, bool) else d + 3 if isinstance(d, int) else d * 0.5 + 0.25 if isinstance(d, float)
                    else (d or "x") + "-other" if isinstance(d, str) else 5]
        for v in vals:
            kw = {**D, n: v}
            if n in ("intensity_aug", "geometry_aug"):
                kw["use_augmentations_train"] = True
            if n == "pre_trained_weights":
                continue
            yield {"op": "train", "kw": kw, "kind": "one optional argument"}
    for b, w in (("swint", "Swin_T_Weights"), ("convnext", "ConvNeXt_Tiny_Weights")):
        yield {"op": "train", "kw": {**D, "backbone_config": b, "pre_trained_weights": w}, "kind": "one optional argument"}
    for _ in range(chk.n(40, 400)):
        kw = {**gen_kw(rng, DATA_GEN), **gen_kw(rng, MODEL_GEN), **gen_kw(rng, TRAINER_GEN)}
        kw["train_labels_path"], kw["val_labels_path"] = rng.choice(STRS[:2] + STRS[3:7]), rng.choice(STRS[:7])
        if rng.random() < 0.5:
            kw["pre_trained_weights"] = valid_pretrained(rng, kw)
        yield {"op": "train", "kw": kw, "kind": "random subset"}


def hist_cases(chk: Check):
    """histories: builder calls interleaved with in-place mutation of objects handed out earlier"""
    rng = chk.rng
    D = {"train_labels_path": "t.slp", "val_labels_path": "v.slp"}

    def H(kind, *subs):
        # call, scramble what it returned, call again (same arguments), ... and once more at the end
        steps, n = [], 0
        for sub in subs:
            steps += [{"call": sub}, {"mutate": n}, {"call": sub}]
            n += 2
        steps += [{"mutate": n - 1}, {"call": subs[0]}]
        return {"op": "hist", "kind": kind, "steps": steps}

    for b in PRESETS:
        yield H("backbone-preset", {"op": "backbone", "a": b})
        yield H("model-preset", {"op": "model", "kw": {"backbone_config": b, "head_configs": rng.choice(HEADS)}})
    for f in BB_F:
        yield H("backbone-dict", {"op": "backbone", "a": {f: {}}})
    for h in HEADS:
        yield H("head", {"op": "head", "a": h})
        yield H("model-head", {"op": "model", "kw": {"head_configs": h}})
    yield H("head", {"op": "head", "a": None}, {"op": "head", "a": {"bottomup": {"confmaps": {}, "pafs": {}}}})
    for ia, ga in [(None, None), ("contrast", "rotation"), (INT, GEO), ({}, {}), (["brightness"], ["mixup", "scale"]),
                   ({"contrast_p": 1.0}, {"rotation": 90.0})]:
        yield H("aug", {"op": "aug", "ia": ia, "ga": ga})
        yield H("data", {"op": "data", "kw": {**D, "use_augmentations_train": True, "intensity_aug": ia, "geometry_aug": ga}})
    yield H("data", {"op": "data", "kw": dict(D)}, {"op": "data", "kw": {**D, "crop_hw": (160, 160), "scale": 0.5}})
    for ls in [None, "step_lr", "reduce_lr_on_plateau", {"step_lr": {"step_size": 5}}, {"reduce_lr_on_plateau": {}}]:
        yield H("trainer", {"op": "trainer", "kw": {"lr_scheduler": ls}})
    yield H("trainer", {"op": "trainer", "kw": {}}, {"op": "trainer", "kw": {"early_stopping": True, "use_wandb": True}})
    # the schema classes themselves: Cls(); overwrite it in place; Cls() again
    for cls in SCHEMA_CLASSES:
        yield H("constructor", {"op": "new", "cls": cls})
    # random mixed histories
    gens = [lambda: {"op": "backbone", "a": rng.choice(PRESETS)},
            lambda: {"op": "backbone", "a": gen_backbone(rng)},
            lambda: {"op": "head", "a": gen_head(rng)},
            lambda: {"op": "model", "kw": gen_kw(rng, MODEL_GEN)},
            lambda: {"op": "trainer", "kw": gen_kw(rng, TRAINER_GEN)},
            lambda: {"op": "data", "kw": {**D, **gen_kw(rng, DATA_GEN)}},
            lambda: {"op": "aug", "ia": gen_aug_arg(rng, INT, INT_FIELDS), "ga": gen_aug_arg(rng, GEO, GEO_FIELDS)}]
    for _ in range(chk.n(40, 400)):
        pool = [rng.choice(gens)() for _ in range(rng.randrange(1, 4))]
        steps, ncalls = [], 0
        for _ in range(rng.randrange(3, 9)):
            if ncalls and rng.random() < 0.4:
                steps.append({"mutate": rng.randrange(ncalls)})
            else:
                steps.append({"call": rng.choice(pool)})
                ncalls += 1
        yield {"op": "hist", "kind": "random", "steps": steps}


def rand_tree(rng, depth=0):
    if depth >= 3 or rng.random() < 0.35:
        return rng.choice([None, True, 0, 1, 2.5, 0.1, "x", "", "a b", [1, 2], [], [0.5, "y"], [[1, "a"], []]])
    keys = rng.sample(["a", "b", "c", "d", "e f"], rng.randrange(0, 4))
    return {k: rand_tree(rng, depth + 1) for k in keys}


def kind_conflict(s, c):
    """OmegaConf.merge refuses to put a list where a dict is (and vice versa); the model's merge is
    the total right-biased one, so such pairs are outside its domain (verify_training_cfg never
    produces them: it merges a tree into a copy of itself plus defaults)"""
    if isinstance(s, dict) and isinstance(c, dict):
        return any(k in s and kind_conflict(s[k], v) for k, v in c.items())
    return (isinstance(s, dict) and isinstance(c, list)) or (isinstance(s, list) and isinstance(c, dict))


def rand_dict(rng):
    keys = rng.sample(["a", "b", "c", "d", "e f"], rng.randrange(0, 5))
    return {k: rand_tree(rng, 1) for k in keys}


# ------------------------------------------------------------------ main
def build_cases(chk: Check, impl: Impl):
    rng = chk.rng
    cases = []
    # --- get_aug_config: every ordered list of <= 3 (thorough: <= 4, + all 5! full lists) names
    kmax = 4 if chk.thorough else 3
    for k in range(0, kmax + 1):
        for p in itertools.permutations(GEO, k):
            cases.append({"op": "aug", "ia": None, "ga": list(p)})
    if chk.thorough:
        for p in itertools.permutations(GEO, 5):
            cases.append({"op": "aug", "ia": None, "ga": list(p)})
    for k in range(0, 5):
        for p in itertools.permutations(INT, k):
            cases.append({"op": "aug", "ia": list(p), "ga": None})
    for n in GEO + ["rotate", "", "Rotation"]:
        cases.append({"op": "aug", "ia": None, "ga": n})
    for n in INT + ["intensity", "noise"]:
        cases.append({"op": "aug", "ia": n, "ga": None})
    cases += [{"op": "aug", "ia": ["contrast", "bogus"], "ga": ["rotation"]},
              {"op": "aug", "ia": None, "ga": ["mixup", "bogus", "scale"]},
              {"op": "aug", "ia": ["uniform_noise", 3], "ga": None},
              {"op": "aug", "ia": {"uniform_noise_min": 0.0, "uniform_noise_max": 1.0, "uniform_noise_p": 1.0},
               "ga": {"rotation": 180.0, "affine_p": 1.0}},
              {"op": "aug", "ia": {"bogus": 1.0}, "ga": None}, {"op": "aug", "ia": None, "ga": {"bogus": 1}},
              {"op": "aug", "ia": {}, "ga": {}}]
    for _ in range(chk.n(150, 1500)):
        cases.append({"op": "aug", "ia": gen_aug_arg(rng, INT, INT_FIELDS), "ga": gen_aug_arg(rng, GEO, GEO_FIELDS)})
    # --- backbone / head builders
    for b in PRESETS + ["unet_x", "resnet", "convnextfoo", "swint_", "", "UNet", None, 3, {}, {"resnet": {}},
                        {"unet": None}, {"unet": {"bogus": 1}}, {"convnext": {"model_type": "small"}, "unet": {}},
                        {"swint": {"model_type": "huge"}}]:
        cases.append({"op": "backbone", "a": b})
    for f in BB_F:
        cases.append({"op": "backbone", "a": {f: {}}})
        cases.append({"op": "backbone", "a": {f: {k: g(rng) for k, g in BB_F[f].items()}}})
    for h in HEADS + ["foo", "", None, {}, {"bottomup": {"confmaps": {}}}, {"centroid": {}},
                      {"centroid": {"confmaps": {"bogus": 1}}}, {"centroid": {"confmaps": None}},
                      {"single_instance": None, "centroid": {"confmaps": {}}},
                      {"bottomup": {"confmaps": {"sigma": 1.5}, "pafs": {"edges": [["a", "b"]], "sigma": 4.0}}}]:
        cases.append({"op": "head", "a": h})
    for _ in range(chk.n(60, 600)):
        cases.append({"op": "backbone", "a": gen_backbone(rng)})
        cases.append({"op": "head", "a": gen_head(rng)})
    # --- data / model / trainer builders
    cases.append({"op": "data", "kw": {"train_labels_path": "t.slp", "val_labels_path": "v.slp"}})
    cases.append({"op": "model", "kw": {}})
    cases.append({"op": "model", "kw": {"head_configs": {"bottomup": {"confmaps": {"output_stride": 2, "sigma": 2.5}, "pafs": {}}}}})
    cases.append({"op": "model", "kw": {"head_configs": {"bottomup": {"confmaps": {}, "pafs": {"output_stride": 4, "sigma": 4.0}}}}})
    cases.append({"op": "trainer", "kw": {}})
    for ls in ({"step_lr": {}}, {"reduce_lr_on_plateau": {}}, {"step_lr": None, "reduce_lr_on_plateau": {}}):
        cases.append({"op": "trainer", "kw": {"lr_scheduler": ls}})
    for b in PRESETS:
        for h in HEADS:
            cases.append({"op": "model", "kw": {"backbone_config": b, "head_configs": h}})
    for a, g in DATA_GEN.items():      # each argument on its own
        cases.append({"op": "data", "kw": {"train_labels_path": "t.slp", "val_labels_path": "v.slp", a: g(rng)}})
    for a, g in TRAINER_GEN.items():
        cases.append({"op": "trainer", "kw": {a: g(rng)}})
    for _ in range(chk.n(120, 1500)):
        kw = gen_kw(rng, DATA_GEN)
        kw["train_labels_path"], kw["val_labels_path"] = rng.choice(STRS), rng.choice(STRS)
        cases.append({"op": "data", "kw": kw})
    for _ in range(chk.n(120, 1500)):
        kw = gen_kw(rng, MODEL_GEN)
        if rng.random() < 0.5:
            kw["pre_trained_weights"] = valid_pretrained(rng, kw)
        cases.append({"op": "model", "kw": kw})
    for _ in range(chk.n(120, 1500)):
        cases.append({"op": "trainer", "kw": gen_kw(rng, TRAINER_GEN)})
    # --- structured arguments that cannot be placed as a whole; invalid names (train.py:530-533 etc.)
    D2 = {"train_labels_path": "t.slp", "val_labels_path": "v.slp", "use_augmentations_train": True}
    cases += [
        {"op": "model", "kw": {"backbone_config": {"convnext": {"model_type": "small"}, "unet": {}}}},
        {"op": "model", "kw": {"backbone_config": {"resnet": {"depth": 50}}}},
        {"op": "model", "kw": {"head_configs": {"bottomup": {"confmaps": {}, "pafs": {}}, "centroid": {"confmaps": {}}}}},
        {"op": "trainer", "kw": {"lr_scheduler": {"cosine": {"T_max": 5}}}},
        {"op": "trainer", "kw": {"lr_scheduler": {"step_lr": {"step_size": 5}, "reduce_lr_on_plateau": {"patience": 3}}}},
        {"op": "trainer", "kw": {"lr_scheduler": "cosine"}, "expect": "reject", "field": "get_trainer_config.lr_scheduler"},
        {"op": "trainer", "kw": {"lr_scheduler": ""}, "expect": "reject", "field": "get_trainer_config.lr_scheduler"},
        {"op": "trainer", "kw": {"lr_scheduler": "StepLR"}, "expect": "reject", "field": "get_trainer_config.lr_scheduler"},
        {"op": "model", "kw": {"backbone_config": "resnet"}, "expect": "reject", "field": "get_model_config.backbone_config"},
        {"op": "model", "kw": {"backbone_config": "unet_small"}, "expect": "reject", "field": "get_model_config.backbone_config"},
        {"op": "model", "kw": {"head_configs": "topdown"}, "expect": "reject", "field": "get_model_config.head_configs"},
        {"op": "model", "kw": {"head_configs": {"centroid": "x"}}, "expect": "reject", "field": "get_model_config.head_configs"},
        {"op": "aug", "ia": ("contrast",), "ga": ("rotation", "scale")},      # tuples are not lists for the code
        {"op": "data", "kw": {**D2, "geometry_aug": ("rotation", "scale")}},
        {"op": "data", "kw": {**D2, "intensity_aug": ("contrast",), "crop_hw": (96, 128)}},
    ]
    # --- validators
    cases += list(invalid_cases())
    cases += list(edge_cases())
    cases += list(number_cases())
    cases += list(train_cases(chk, impl))
    cases += list(assign_cases(chk, impl))
    cases += list(which_cases(chk))
    # --- merge on arbitrary trees (OmegaConf.merge itself)
    cases += [{"op": "merge", "s": {"a": 1, "b": {"c": "x"}}, "c": {"b": {"c": "y", "d": None}, "e": [1, 0.5]}},
              {"op": "merge", "s": {"a": {"x": 1}}, "c": {"a": None}}, {"op": "merge", "s": {"a": None}, "c": {"a": {"x": 1}}},
              {"op": "merge", "s": {"a": [1, 2]}, "c": {"a": [3]}}, {"op": "merge", "s": {}, "c": {}}]
    for _ in range(chk.n(80, 800)):
        s = rand_dict(rng)
        c = rng.choice([rand_dict(rng), s, rand_dict(rng)])
        if kind_conflict(s, c):
            chk.tag("merge:dict-vs-list pair skipped")
            continue
        cases.append({"op": "merge", "s": s, "c": c})
    return cases


def field_types(impl: Impl):
    """field name -> type annotation text, over all schema classes (used only to pick a sentinel for a leaf
    whose default is None)"""
    out = {}
    for c in impl.classes.values():
        for a in c.__attrs_attrs__:
            out.setdefault(a.name, str(a.type))
    return out


def sentinel(path, t, types):
    """a value of the leaf's type that differs from the schema default `t` (typed canonical form)"""
    if t is None:
        ann = types.get(path[-1], "")
        if "bool" in ann:
            return True
        if "int" in ann and "List" not in ann and "Tuple" not in ann:
            return 7
        if "float" in ann and "List" not in ann:
            return 0.625
        if "List[List" in ann:
            return [["s1", "s2"], ["s2", "s3"]]
        if "List[str" in ann:
            return ["s1", "s2"]
        if "List" in ann or "Tuple" in ann or "list" in ann:
            return [3, 5]
        if "dict" in ann:
            return {"sentinel": [1, "x"]}
        return "sentinel-" + path[-1]
    k, v = t
    if k == "b":
        return not v
    if k == "i":
        return v + 17
    if k == "f":
        return float(v) * 0.5 + 0.375 if not isinstance(v, str) else 0.375
    if k == "s":
        if v == "???":
            return "sentinel/" + path[-1] + ".slp"
        return (v or "0.0.0") + "-other"
    if k == "L":
        return [sentinel(path, x, types) for x in v] + [sentinel(path, v[0], types)] if v else ["sentinel"]
    raise ValueError(k)


def complete_bases(impl: Impl):
    """complete configuration trees built from the SCHEMA (the class-default trees sent to the driver):
    TrainingJobConfig defaults with every optional sub-configuration instantiated, one variant per backbone /
    head / scheduler type so that every leaf of every schema class occurs in some base"""
    D = impl.defaults
    variants = [("unet", "UNetConfig", "single_instance", "SingleInstanceConfig", "step_lr", "StepLRConfig"),
                ("convnext", "ConvNextConfig", "centroid", "CentroidConfig", "reduce_lr_on_plateau", "ReduceLROnPlateauConfig"),
                ("swint", "SwinTConfig", "centered_instance", "CenteredInstanceConfig", "step_lr", "StepLRConfig"),
                ("unet", "UNetLargeRFConfig", "bottomup", "BottomUpConfig", "reduce_lr_on_plateau", "ReduceLROnPlateauConfig")]
    for bf, bc, hf, hc, sf, sc in variants:
        t = json.loads(json.dumps(untag(D["TrainingJobConfig"])))
        t["data_config"]["augmentation_config"] = untag(D["AugmentationConfig"])
        t["model_config"]["backbone_config"][bf] = untag(D[bc])
        t["model_config"]["head_configs"][hf] = untag(D[hc])
        t["trainer_config"]["lr_scheduler"] = untag(D["LRSchedulerConfig"])
        t["trainer_config"]["lr_scheduler"][sf] = untag(D[sc])
        t["trainer_config"]["early_stopping"] = untag(D["EarlyStoppingConfig"])
        t["data_config"]["train_labels_path"] = "train.pkg.slp"      # the two mandatory values
        t["data_config"]["val_labels_path"] = "val.pkg.slp"
        yield f"{bf}/{hf}/{sf}", json.loads(json.dumps(t))


def set_path(t, p, v):
    for k in p[:-1]:
        t = t[k]
    t[p[-1]] = v


def sentinel_cases(chk: Check, impl: Impl):
    """complete configurations in which a leaf carries a non-default value of its type: one configuration per
    leaf (every leaf of every schema class, incl. the top-level metadata name / description / sleap_nn_version /
    filename) + one all-sentinel configuration per base — what a training_config.yaml written elsewhere (another
    release, another user) looks like.  Each goes through verify_training_cfg, YAML save/load, and both orders."""
    types = field_types(impl)
    done = set()
    for name, base in complete_bases(impl):
        allc = json.loads(json.dumps(base))
        for p, x in leaves(tag(base)):
            set_path(allc, p, sentinel(p, x, types))
        yield {"op": "verify", "cfg": allc, "kind": "sentinel: every leaf", "base": name}
        if not done:
            for k, x in base.items():     # optional top-level metadata explicitly None (e.g. no version recorded)
                if not isinstance(x, dict):
                    one = json.loads(json.dumps(base))
                    one[k] = None
                    yield {"op": "verify", "cfg": one, "kind": "sentinel: top-level None", "leaf": k, "base": name}
        for p, x in leaves(tag(base)):
            if p in done:
                continue
            done.add(p)
            one = json.loads(json.dumps(base))
            set_path(one, p, sentinel(p, x, types))
            yield {"op": "verify", "cfg": one, "kind": "sentinel: one leaf", "leaf": ".".join(p), "base": name}


def verify_cases(chk: Check, impl: Impl):
    """complete configurations made by the real builders (+ incomplete / malformed variants)"""
    rng = chk.rng
    tr, OC = impl.tr, impl.OC
    out = []
    n = chk.n(40, 400)
    tries = 0
    while len(out) < n and tries < 20 * n:
        tries += 1
        dkw = gen_kw(rng, DATA_GEN)
        dkw["train_labels_path"], dkw["val_labels_path"] = rng.choice(STRS[:2] + STRS[3:]), rng.choice(STRS)
        mkw = gen_kw(rng, MODEL_GEN)
        tkw = gen_kw(rng, TRAINER_GEN)
        r = call(lambda: OC.to_container(impl.tj.TrainingJobConfig(
            data_config=tr.get_data_config(**dkw), model_config=tr.get_model_config(**mkw),
            trainer_config=tr.get_trainer_config(**tkw)).to_sleap_nn_cfg()))
        if r[0] != "ok":
            continue
        cfg = r[1]
        out.append({"op": "verify", "cfg": cfg, "kind": "complete"})
        k = rng.random()
        if k < 0.5:
            part = dict(cfg)
            for key in rng.sample(sorted(part), rng.randrange(1, 4)):
                del part[key]
            out.append({"op": "verify", "cfg": part, "kind": "top-level keys dropped"})
        elif k < 0.7:
            part = json.loads(json.dumps(cfg))
            sec = rng.choice(["data_config", "model_config", "trainer_config"])
            for key in rng.sample(sorted(part[sec]), rng.randrange(1, 4)):
                if key not in ("train_labels_path", "val_labels_path"):
                    del part[sec][key]
            out.append({"op": "verify", "cfg": part, "kind": "nested keys dropped"})
        elif k < 0.8:
            out.append({"op": "verify", "cfg": {**cfg, "bogus_key": 1}, "kind": "unknown top-level key"})
        elif k < 0.9:
            part = json.loads(json.dumps(cfg))
            part["data_config"]["extra"] = {"k": [1, 2.5, "z"]}
            part["data_config"]["skeletons"] = {"sk": {"nodes": ["a", "b"], "edges": [[0, 1]]}}
            out.append({"op": "verify", "cfg": part, "kind": "extra nested keys"})
    out += list(sentinel_cases(chk, impl))
    for name, base in complete_bases(impl):
        m = json.loads(json.dumps(base))
        m["data_config"]["skeletons"] = {"sk": {"nodes": ["a", "???"]}}
        out.append({"op": "verify", "cfg": m, "kind": "MISSING marker inside a list"})
        break
    out.append({"op": "verify", "cfg": {}, "kind": "empty"})
    out.append({"op": "verify", "cfg": {"data_config": {"train_labels_path": "x"}}, "kind": "sparse"})
    return out


def classify(case):
    op = case["op"]
    if op == "aug":
        def k(a):
            return "none" if a is None else "str" if isinstance(a, str) else f"list{len(a)}" if isinstance(a, list) \
                else "dict" if isinstance(a, dict) else "other"
        return [f"aug:{k(case['ia'])}/{k(case['ga'])}"]
    if op in ("backbone", "head"):
        a = case["a"]
        return [f"{op}:" + ("str" if isinstance(a, str) else "dict" if isinstance(a, dict) else "other")]
    if op == "verify":
        return ["verify:" + case["kind"]]
    if op == "which":
        return [f"oneof-after-assignment:{case['mode']}"]
    if op == "train":
        return [f"train:{case.get('kind', 'random')}"]
    if op == "assign":
        return ["assign:" + ("default-object" if case["src"] == "default" else "builder-result")]
    if op in ("ctor", "bctor"):
        return [f"edge:{op}:{'yaml' if case.get('yaml') else 'py'}:{case.get('expect') or 'no-expectation'}"]
    if op in ("mk", "oneof") or "expect" in case:
        return [f"validator:{case.get('expect', '-')}"]
    return [op]


def check_case(chk: Check, impl: Impl, case, lines, ires, model_lines):
    """compare one case; on disagreement run the property oracle on the implementation"""
    mres = [model_result(x) for x in model_lines]
    op = case["op"]
    jcase = to_json({k: v for k, v in case.items()})
    key = json.dumps(jcase, sort_keys=True, default=str)
    if op == "hist":
        return check_history(chk, impl, case, jcase, key, ires[1], mres)
    chk.case(key, {"case": jcase, "impl": show(ires) if op != "verify" else ires[0], "model": lines[0][:200]},
             tags=classify(case) + [f"result:{ires[0]}" + (":" + ires[1] if ires[0] == "raise" else "")])
    if op in ("ctor", "bctor"):
        mres = [(m[0], None) if m[0] == "ok" else m for m in mres]   # status / exception class only
    agree = ires == mres[0]
    # ---- the property itself, on the implementation (independent of the model)
    why, sigs, reported = None, [], False
    if op == "aug":
        o = oracle_aug(impl, case["ia"], case["ga"])
        if o:
            why, sigs = o
    elif op in ("data", "model", "trainer") and "expect" not in case:
        # not gated on the model: a valid record on which implementation AND model raise is reported too
        for w, sg in oracle_builder(impl, op, case["kw"]):
            chk.fail(f"C20 fails on {op}: {w}", jcase, show(ires), sg)
            reported = True
    elif op == "backbone" and isinstance(case["a"], str) and case["a"] in PRESETS:
        if ires[0] == "raise":
            why = f"documented preset {case['a']!r} cannot be turned into a configuration: {ires[1]}"
            if ires[1] == "ValidationError" and not issubclass(*preset_classes(impl, case["a"])):
                sigs = ["preset_class_not_subclass"]
    elif "expect" in case:
        if case["expect"] == "reject" and ires[0] == "ok":
            why = f"invalid value accepted for {case['field']}" + (f" = {case['shown']}" if "shown" in case else "")
            fld = case["field"]
            if fld.startswith("ConvNext") and fld.endswith("Config.model_type") and not field_has_validator(impl, fld):
                sigs = ["convnext_model_type_unvalidated"]
            if fld == "GeometricConfig.scale" and not field_has_validator(impl, fld):
                sigs = ["geometric_scale_unvalidated"]
        if case["expect"] == "accept" and ires[0] == "raise":
            why = f"valid value rejected for {case['field']}: {ires[1]}"
    elif op == "verify":
        why = oracle_verify(impl, case["cfg"])
    elif op == "assign":
        a = case.pop("_assign")
        jcase.pop("_assign", None)
        where = f"{case['cls']}()" if case["src"] == "default" else \
            describe({"op": case["src"]["builder"], "kw": case["src"]["kw"]}) + "".join("." + k for k in case["src"]["path"])
        stmt = f"obj = {where}; obj.{case['field']} = {case['value']!r}"
        fld = f"{case['cls']}.{case['field']}"
        if a["ctor"][0] == "raise" and ires[0] == "ok":
            why = f"{stmt} is accepted (stored {untag_s(a['now'])}) although the constructor rejects that value ({a['ctor'][1]})"
        elif a["ctor"][0] == "ok" and ires[0] == "raise":
            why = f"{stmt} raises {ires[1]} although the constructor accepts that value"
        elif a["ctor"][0] == "raise" and ires[0] == "raise" and a["ctor"][1] != ires[1]:
            why = f"{stmt} raises {ires[1]}, the constructor raises {a['ctor'][1]}"
        elif ires[0] == "raise" and a["now"] != a["old"]:
            why = f"{stmt} raised {ires[1]} but the field changed from {untag_s(a['old'])} to {untag_s(a['now'])}"
        elif ires[0] == "ok" and a["now"] != a["new"]:
            why = f"{stmt} succeeded but the field holds {untag_s(a['now'])}"
        if why and not validator_uses_value(impl, fld):
            sigs = ["assignment_validates_old_value"]
    elif op == "train":
        comp = impl.compose_builders(case["kw"])
        if comp != ires:
            d = first_diff(ires[1], comp[1]) if ires[0] == "ok" and comp[0] == "ok" else f"{show(ires)!r} instead of {show(comp)!r}"
            why = "train(" + ", ".join(f"{k}={v!r}" for k, v in case["kw"].items()) + \
                  ") starts training from a configuration that differs from what the three builders give for the same " \
                  "arguments: " + d
    elif op == "which":
        final = dict(case["init"])
        for f, c in case["assign"]:
            final[f] = c
        nset = [f for f, c in final.items() if c]
        what = "which_oneof_attrib_name()" if case["mode"] == "name" else "which_oneof()"
        seq = f"{case['cls']}({', '.join(f + '=' + c + '()' for f, c in case['init'].items())})" + \
              "".join(f"; obj.{f} = {c + '()' if c else 'None'}" for f, c in case["assign"])
        if len(nset) > 1 and ires != ("raise", "ValueError"):
            why = f"{seq}; obj.{what} -> {show(ires)[1] if ires[0] == 'ok' else ires!r} although {len(nset)} types " \
                  f"are set ({', '.join(sorted(nset))}): must raise ValueError"
        elif len(nset) <= 1 and ires[0] == "raise":
            why = f"{seq}; obj.{what} raised {ires[1]} with {len(nset)} type(s) set"
        elif len(nset) <= 1 and case["mode"] == "name" and ires != ("ok", tag(nset[0] if nset else None)):
            why = f"{seq}; obj.{what} -> {show(ires)[1]!r}, the type set is {nset[0] if nset else None!r}"
    if why:
        chk.fail(f"C20 fails on {op}: {why}", jcase, show(ires) if op != "verify" else ires[0], sigs)
    # ---- correspondence
    if not agree:
        explained = False
        if op in ("aug", "data") and len(mres) > 1 and ires == mres[1] and why and "aug_two_affine_names" in sigs:
            explained = True      # the implementation is the as-is model: known defect F-C20, reported above
            chk.tag("explained-by:F-C20")
        if not explained:
            chk.disagree(f"{op}: implementation == Config model", jcase, show(ires), show(mres[0]))
            if not why and not reported:
                focused_search(chk, impl, case)
    return agree


def check_history(chk: Check, impl: Impl, case, jcase, key, outs, mres):
    calls = [st["call"] for st in case["steps"] if "call" in st]
    chk.case(key, {"case": jcase, "impl": [o[0] for o in outs]}, tags=[f"hist:{case.get('kind', 'mixed')}"])
    agree = True
    # oracle: every call returns what the same call returns on a fresh state
    seen_mut = 0
    ci = 0
    for st in case["steps"]:
        if "mutate" in st:
            seen_mut += 1
            continue
        sub, o = calls[ci], outs[ci]
        fresh = impl.fresh[json.dumps(to_json(sub), sort_keys=True)]
        if o != fresh:
            d = first_diff(o[1], fresh[1]) if o[0] == "ok" and fresh[0] == "ok" else f"{show(o)!r} instead of {show(fresh)!r}"
            sigs = ["shared_mutable_default"] if only_shared_defaults(impl, o, fresh) else []
            chk.fail(f"C20 fails on a call history: call #{ci} {describe(sub)}, made after {seen_mut} in-place "
                     f"mutation(s) of earlier results, differs from the same call on a fresh state: {d}",
                     jcase, show(o), sigs)
            if not sigs:
                break
        ci += 1
    known_shared = any(f.get("signature") == "shared_mutable_default" and f["status"] == "known" for f in chk.known)
    for i, (sub, o, m) in enumerate(zip(calls, outs, mres)):
        if o != m:
            if known_shared and only_shared_defaults(impl, o, m):
                chk.tag("explained-by:F-C20c")      # reported above through the oracle
                continue
            agree = False
            chk.disagree("history: k-th builder result == Config model (pure function of the arguments)",
                         {"history": jcase, "call": i}, show(o), show(m))
            break
    return agree


def untag_s(t):
    try:
        return repr(untag(t))
    except Exception:
        return repr(t)


def validator_uses_value(impl: Impl, fld):
    """does the field's validator look at the value it is given?  (a lambda / function that never loads its third
    parameter validates something else — `self.<field>`, which during an assignment is still the OLD value)"""
    import dis

    cls, f = fld.split(".")
    a = next(x for x in impl.classes[cls].__attrs_attrs__ if x.name == f)
    v = a.validator
    code = getattr(v, "__code__", None)
    if code is None or code.co_argcount < 3:
        return True
    third = code.co_varnames[2]
    return any(i.opname.startswith("LOAD_FAST") and third in (i.argval if isinstance(i.argval, tuple) else (i.argval,))
               for i in dis.get_instructions(code))


def field_has_validator(impl: Impl, fld):
    cls, f = fld.split(".")
    return any(a.name == f and a.validator is not None for a in impl.classes[cls].__attrs_attrs__)


def preset_classes(impl: Impl, name):
    fam = "unet" if name.startswith("unet") else "convnext" if name.startswith("convnext") else "swint"
    declared = {"unet": "UNetConfig", "convnext": "ConvNextConfig", "swint": "SwinTConfig"}[fam]
    placed = {"unet": "UNetConfig", "unet_medium_rf": "UNetMediumRFConfig", "unet_large_rf": "UNetLargeRFConfig",
              "convnext": "ConvNextConfig", "convnext_tiny": "ConvNextConfig", "convnext_small": "ConvNextSmallConfig",
              "convnext_base": "ConvNextBaseConfig", "convnext_large": "ConvNextLargeConfig",
              "swint": "SwinTConfig", "swint_tiny": "SwinTConfig", "swint_small": "SwinTSmallConfig",
              "swint_base": "SwinTBaseConfig"}[name]
    return impl.classes[placed], impl.classes[declared]


def focused_search(chk: Check, impl: Impl, case):
    """a disagreement without an oracle failure at the same input: look around it"""
    rng = chk.rng
    op = case["op"]
    if op in ("data", "model", "trainer") and "expect" not in case:
        table = {"data": DATA_GEN, "model": MODEL_GEN, "trainer": TRAINER_GEN}[op]
        for _ in range(60):
            kw = dict(case["kw"])
            for a in rng.sample(sorted(table), 2):
                kw[a] = table[a](rng)
            if call(lambda: impl.full_args(getattr(impl.tr, f"get_{op}_config"), kw))[0] != "ok":
                continue
            r = impl.observe(getattr(impl.tr, f"get_{op}_config"), **kw)
            if r[0] != "ok":
                continue
            whys = oracle_builder(impl, op, kw)
            if whys:
                for w, sg in whys:
                    chk.fail(f"C20 fails on {op}: {w}", to_json({"op": op, "kw": kw}), show(r), sg)
                return
    if op in ("backbone", "head"):
        # route through get_model_config where the oracle speaks
        kw = {"backbone_config": case["a"]} if op == "backbone" else {"head_configs": case["a"]}
        r = impl.observe(impl.tr.get_model_config, **kw)
        if r[0] == "ok":
            for w, sg in oracle_builder(impl, "model", kw):
                chk.fail(f"C20 fails on model: {w}", to_json({"op": "model", "kw": kw}), show(r), sg)


def run_cases(chk: Check, impl: Impl, cases):
    env = impl.env_lines()
    impl.prime(cases)
    pre = [impl.run(c) for c in cases]
    for d in getattr(impl, "repeat_diffs", []):
        chk.case(None, tags=["shared_argument_object_call_2_differs"])
        chk.fail(f"C20 fails on a two-call history of {d['builder']}: the same argument objects handed to the "
                 "builder a second time give a different configuration (the first call changed the caller's argument)",
                 {"op": "repeat", **{k_: d[k_] for k_ in ("builder", "args", "kwargs")}},
                 {k_: show(d[k_]) if k_.startswith("call_") else d[k_] for k_ in
                  ("args_after_call_1", "kwargs_after_call_1", "call_1", "call_2_same_objects")})
    impl.repeat_diffs = []
    all_lines, spans = list(env), []
    for lines, _ in pre:
        spans.append((len(all_lines), len(lines)))
        all_lines += lines
    outs = run_driver("C20.lean", all_lines)
    if any(o != "ok" for o in outs[:len(env)]):
        raise RuntimeError("driver refused an env line")
    for c, (lines, ires), (i, n) in zip(cases, pre, spans):
        check_case(chk, impl, c, lines, ires, outs[i:i + n])


def model_lines_only(impl: Impl, sub):
    """driver lines of one builder call (first line = the model the implementation is held to)"""
    op = sub["op"]
    if op == "aug":
        return [f"aug fixed {toks(targ(sub['ia']))} {toks(targ(sub['ga']))}"]
    if op in ("backbone", "head"):
        return [f"{op} {toks(targ(sub['a']))}"]
    if op == "new":
        return [f"mk {sub['cls']} N 0"]
    full = impl.full_args(getattr(impl.tr, f"get_{op}_config"), sub["kw"])
    return [f"data fixed {toks(targ(full))}"] if op == "data" else [f"{op} {toks(targ(full))}"]


# leaves at which a builder called with NO optional argument differs from the schema class default, and why that is
# not a deviation: the builder documents its own default for that parameter (docstrings of train.py); pinned here.
DOCUMENTED_BUILDER_DEFAULTS = {
    "trainer": {("train_data_loader", "batch_size"): 4, ("val_data_loader", "batch_size"): 4,   # batch_size "Default: 4"
                ("enable_progress_bar",): False,      # "Default: False" (schema: True)
                ("max_epochs",): 100,                 # "Default: 100"   (schema: 10)
                ("seed",): 1000,                      # "default: 1000"  (schema: None)
                # early_stopping / lr_scheduler: the builder always instantiates the sub-configuration; every value in
                # it is the sub-class's own schema default (EarlyStoppingConfig(), LRSchedulerConfig()) = "disabled"
                ("early_stopping",): "EarlyStoppingConfig", ("lr_scheduler",): "LRSchedulerConfig"},
    "model": {("backbone_config", "unet"): "UNetConfig"},     # backbone_config="unet" is the signature default (undocumented)
    "data": {},
}


def defaults_audit(chk: Check, impl: Impl):
    """(a) the builders' signature defaults are the pinned EFFECTIVE_DEFAULTS; (b) a builder called with no optional
    argument differs from the schema default only at the classified leaves above (or at F-C20e)."""
    tr = impl.tr
    for kind, fn in (("data", tr.get_data_config), ("model", tr.get_model_config), ("trainer", tr.get_trainer_config)):
        sig = {n: p.default for n, p in inspect.signature(fn).parameters.items() if p.default is not inspect._empty}
        chk.case(f"signature-defaults:{kind}", None, tags=["defaults-audit"])
        for a in sorted(set(sig) | set(EFFECTIVE_DEFAULTS[kind])):
            have, want = sig.get(a, "<no such parameter>"), DOC_DEFAULTS[kind].get(a, "<not in the documented table>")
            if tag_or(have) != tag_or(want):
                contra = SIG_CONTRADICTS_DOC.get(kind, {})
                sg = ["signature_default_contradicts_doc"] if a in contra and tag_or(have) == tag_or(contra[a]) else []
                chk.fail(f"C20 fails on {kind}: get_{kind}_config({a}=…) not passed means {have!r}; its documented default is "
                         f"{want!r}", {"op": kind, "kw": {} if kind != "data" else {"train_labels_path": "t.slp", "val_labels_path": "v.slp"}},
                         repr(have), sg)
        kw = {"train_labels_path": "t.slp", "val_labels_path": "v.slp"} if kind == "data" else {}
        r = impl.observe(fn, **kw)
        if r[0] != "ok":
            continue
        root = dict(impl.defaults[ROOT_CLASS[kind]])
        if kind == "data":
            root = {**root, "train_labels_path": ("s", "t.slp"), "val_labels_path": ("s", "v.slp")}
        allowed = DOCUMENTED_BUILDER_DEFAULTS[kind]
        contra_paths = {}
        for a, v in SIG_CONTRADICTS_DOC.get(kind, {}).items():
            w = PLACE[kind][a]
            for p in (w if isinstance(w, list) else [w]):
                contra_paths[p] = v
        for d in all_diffs(r[1], root):
            hit = next((p for p in allowed if d[:len(p)] == p), None)
            if hit is not None:
                want = allowed[hit]
                ok = get(r[1], hit) == (impl.defaults[want] if isinstance(want, str) and want in impl.defaults else tag(want))
                if ok:
                    chk.tag("no-arg-builder-vs-schema:documented-builder-default")
                    continue
            if d in contra_paths and get(r[1], d) == tag(contra_paths[d]):
                chk.fail(f"C20 fails on {kind}: get_{kind}_config() leaves {'.'.join(d)} = {untag(get(r[1], d))!r}; schema default "
                         f"{untag(get(root, d))!r}, documented default False", {"op": kind, "kw": kw}, None,
                         ["signature_default_contradicts_doc"])
                continue
            chk.fail(f"C20 fails on {kind}: get_{kind}_config() with no optional argument has {'.'.join(d)} = "
                     f"{untag(get(r[1], d))!r}, the schema default is {untag(get(root, d))!r} (not a documented builder default)",
                     {"op": kind, "kw": kw}, None)


def tag_or(x):
    try:
        return tag(x)
    except TypeError:
        return ("?", repr(x))


def replay_known(chk: Check, impl: Impl):
    for ent in chk.known:
        w = from_json(ent.get("witness") or {})
        if ent["id"] == "F-C20":
            o = oracle_aug(impl, w.get("intensity_aug"), w["geometric_aug"])
            chk.known_replay("F-C20", still_fails=bool(o), detail="" if o else "every named augmentation enabled")
        elif ent["id"] == "F-C20c":
            a = impl.tr.get_aug_config(None, None)
            before = tag(impl.structured(impl.tr.get_aug_config(None, None)))
            saved = list(a.geometric.mixup_lambda)
            a.geometric.mixup_lambda[0] = 0.5          # the caller edits ITS config in place
            after = tag(impl.structured(impl.tr.get_aug_config(None, None)))
            shared = a.geometric.mixup_lambda is impl.tr.get_aug_config(None, None).geometric.mixup_lambda
            if shared:
                a.geometric.mixup_lambda[:] = saved    # undo, so that the rest of the run starts clean
            chk.known_replay("F-C20c", still_fails=before != after, detail="second call unaffected")
        elif ent["id"] == "F-C20b":
            r = impl.observe(impl.tr.get_model_config, backbone_config=w["backbone_config"], head_configs="centroid")
            chk.known_replay("F-C20b", still_fails=r[0] == "raise", detail=str(r[0]))


def main(chk: Check):
    chk.build_and_audit()
    impl = Impl()
    replay_known(chk, impl)
    impl.env_lines()                     # computes impl.defaults (the schema trees) from the working tree
    defaults_audit(chk, impl)
    for n, c in impl.classes.items():
        if hasattr(c, "which_oneof"):
            ONEOF_ORDER[n] = [a.name for a in c.__attrs_attrs__]
    if set(ONEOF_ORDER) != {"BackboneConfig", "HeadConfig"}:
        chk.fail(f"C20: the @oneof classes are {sorted(ONEOF_ORDER)}, the check covers BackboneConfig and HeadConfig",
                 {"op": "oneof-classes"}, sorted(ONEOF_ORDER))
    cases = build_cases(chk, impl)
    cases += verify_cases(chk, impl)
    corpus = sorted((chk_path("corpus") / "C20").glob("*.json")) if (chk_path("corpus") / "C20").is_dir() else []
    cases = [from_json(json.loads(p.read_text())) for p in corpus] + cases
    SCHEMA_CLASSES[:] = sorted(impl.classes)
    cases += list(hist_cases(chk))      # last: they mutate objects the builders handed out
    run_cases(chk, impl, cases)
    chk.extra["schema_classes_sent"] = len(impl.classes)


def chk_path(name):
    from common import VERIF

    return VERIF / name


def replay(chk: Check, payload):
    impl = Impl()
    case = payload.get("case") or payload["disagreements"][0]["case"]
    case = from_json(case)
    print("replay case:", json.dumps(to_json(case))[:600])
    run_cases(chk, impl, [case])


if __name__ == "__main__":
    chk = Check(
        "C20", module="SleapVerif.Props.C20", theorems=THEOREMS,
        build_targets=["SleapVerif.Model.Config", "SleapVerif.Model.Proto", "SleapVerif.Lemmas.ConfigTree",
                       "SleapVerif.Lemmas.ConfigAug", "SleapVerif.Lemmas.ConfigBuild"],
        trusted=[
            "Lean 4.33 kernel; axioms ⊆ {propext, Classical.choice, Quot.sound} (audited per run)",
            "hand-written model Config.lean of the builders / attrs constructors / validators / verify_training_cfg; "
            "tied to /repo by exact typed comparison on the explored argument records only",
            "attrs (keyword constructor over class defaults, validators after assignment) and OmegaConf "
            "(structured(), merge(), YAML save/load, subclass check of structured fields): modelled, validated by "
            "the correspondence; schema defaults and the subclass relation are read from the working tree each run",
            "float values travel as the exact decimal of their repr (lossless in both directions)",
            "the builders' parameter defaults are NOT read from the implementation: DOC_DEFAULTS is pinned from the "
            "docstrings of train.py (6 parameters without a documented default — test_file_path, intensity_aug, "
            "geometry_aug, backbone_config, head_configs, lr_scheduler — are pinned from the signature as of HEAD); "
            "defaults_audit compares inspect.signature with the pinned table and the no-argument builder results "
            "with the schema defaults every run",
        ],
        rule="get_aug_config on every ordered list of <= 3 (thorough <= 5) geometric names, every ordered list of "
             "intensity names, each name singly, dict forms, invalid names + random mixes; every backbone preset x head "
             "type, dict forms with random field subsets; random argument records for the three builders (each "
             "argument singly + sparse/dense subsets, strings with blanks/unicode/empty); every validated field with "
             "invalid and boundary values, directly and through the builders; oneof with every subset of fields; "
             "verify_training_cfg on complete configurations from the real builders and variants with dropped/unknown/"
             "extra keys; OmegaConf.merge on random trees. distinct = distinct (op, arguments) record",
        assumptions=[
            "a builder parameter the caller does not pass takes the builder's DOCUMENTED default (DOC_DEFAULTS), which "
            "differs from the schema default at batch_size, enable_progress_bar, max_epochs, seed, backbone_config and the "
            "always-instantiated early_stopping / lr_scheduler sub-configs (DOCUMENTED_BUILDER_DEFAULTS; argued in notes)",
            "argument values are of the documented Python type (an int where a float is documented, a str where a "
            "bool is documented etc. is refused or coerced by OmegaConf, outside the model)",
            "verify_training_cfg: top-level sections, when present, are dicts",
        ],
    )
    run_check(chk, main, replay)
