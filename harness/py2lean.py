"""py2lean — tiny AST translator: named pure-integer Python functions of /repo -> Lean `Int` defs.

Second tie between /repo and the Lean library (DESIGN §3.3): the theorems in
`lean/SleapVerif/Props/C14.lean` named `gen_*` are stated about the definitions emitted here, so
an edit of the Python source changes the generated file and re-opens those proof obligations.

Supported fragment (anything else raises `Unsupported`, reported by the harness as a broken
obligation; the check then relies on the hand model + correspondence + failing-input search):

  integer constants, parameter / local names, `config.<name>` (becomes a parameter),
  `+ - *`, `//` (-> Int.fdiv), `%` (-> Int.fmod), `max(a, b)`, `min(a, b)`, `int(e)` (identity on
  the integer-valued fragment), comparisons, `a if c else b`, `x is None` / `x is not None` for a
  declared optional parameter,
  `torch.ceil(torch.tensor(a / b)).item()`  -> ceilDiv a b,
  `np.log2(a).astype(int)`, `np.log2(a / b).astype(int)`, `int(math.log2(a))`, `int(np.log2(a))`
                                            -> log2Trunc a b     (truncated log2 of a rational),
  filter counts `int(filters * (filters_rate ** e))` (FILTER_TARGETS; `self.` prefixes allowed) -> scale filters r e,
  statements: docstring, `x = e`, `if c: x = e` (assign-only bodies, optional else), `return e`,
  `return cls(name=e, ...)` (the listed keyword values are returned as a tuple).
"""
from __future__ import annotations

import ast
import hashlib
from pathlib import Path

TARGETS = [
    dict(file="sleap_nn/architectures/common.py", cls="MaxPool2dWithSamePadding", func="_calc_same_pad",
         lean="calc_same_pad", params=["i", "k", "s", "d"], optional=[], outputs=None),
    dict(file="sleap_nn/architectures/unet.py", cls="UNet", func="from_config",
         lean="unet_from_config_blocks", params=["stem_stride", "max_stride", "output_stride"],
         optional=["stem_stride"], outputs=["down_blocks", "up_blocks", "stem_blocks"]),
]

# filter-count expressions `block_filters… = int(filters * (filters_rate ** <int expr>))` inside the block loops
# of Encoder.__init__ / Decoder.__init__  ->  `scale filters r <int expr>` (exact rational power, truncated)
FILTER_TARGETS = [
    dict(file="sleap_nn/architectures/encoder_decoder.py", cls="Encoder", loop_over="stem_blocks",
         var="block_filters", lean="enc_stem_block_filters", params=["block", "stem_blocks"]),
    dict(file="sleap_nn/architectures/encoder_decoder.py", cls="Encoder", loop_over="down_blocks",
         var="block_filters", lean="enc_down_block_filters", params=["block", "stem_blocks"]),
    dict(file="sleap_nn/architectures/encoder_decoder.py", cls="Decoder", loop_over="up_blocks",
         var="block_filters_in", lean="dec_block_filters_in", params=["block", "stem_blocks", "down_blocks"]),
]

GEN_REL = "SleapVerif/Gen/TranslatedArch.lean"


class Unsupported(Exception):
    pass


def _src(node):
    try:
        return ast.unparse(node)
    except Exception:  # pragma: no cover
        return ast.dump(node)


class Tr:
    def __init__(self, params, optional):
        self.params = list(params)
        self.optional = set(optional)
        self.locals: set[str] = set()

    # ---- names
    def name(self, node) -> str:
        if isinstance(node, ast.Name):
            n = node.id
        elif isinstance(node, ast.Attribute) and isinstance(node.value, ast.Name) and node.value.id in ("config", "self"):
            n = node.attr
        else:
            raise Unsupported(f"not a name: {_src(node)}")
        if n not in self.params and n not in self.locals:
            raise Unsupported(f"unknown name {n}")
        return n

    @staticmethod
    def _is_call(node, dotted: str) -> bool:
        if not isinstance(node, ast.Call):
            return False
        f, parts = node.func, []
        while isinstance(f, ast.Attribute):
            parts.append(f.attr)
            f = f.value
        if isinstance(f, ast.Name):
            parts.append(f.id)
        return ".".join(reversed(parts)) == dotted

    def ratio(self, node):
        """`a / b` -> (a, b); `a` -> (a, 1)"""
        if isinstance(node, ast.BinOp) and isinstance(node.op, ast.Div):
            return self.expr(node.left), self.expr(node.right)
        return self.expr(node), "1"

    # ---- integer expressions
    def expr(self, n) -> str:
        if isinstance(n, ast.Constant) and isinstance(n.value, int) and not isinstance(n.value, bool):
            return f"({n.value} : Int)"
        if isinstance(n, (ast.Name, ast.Attribute)):
            return self.name(n)
        if isinstance(n, ast.UnaryOp) and isinstance(n.op, ast.USub):
            return f"(-{self.expr(n.operand)})"
        if isinstance(n, ast.BinOp):
            a, b = self.expr(n.left), self.expr(n.right)
            if isinstance(n.op, ast.Add):
                return f"({a} + {b})"
            if isinstance(n.op, ast.Sub):
                return f"({a} - {b})"
            if isinstance(n.op, ast.Mult):
                return f"({a} * {b})"
            if isinstance(n.op, ast.FloorDiv):
                return f"(Int.fdiv {a} {b})"
            if isinstance(n.op, ast.Mod):
                return f"(Int.fmod {a} {b})"
            raise Unsupported(f"operator in {_src(n)}")
        if isinstance(n, ast.IfExp):
            return f"(if {self.cond(n.test)} then {self.expr(n.body)} else {self.expr(n.orelse)})"
        if isinstance(n, ast.Call):
            # torch.ceil(torch.tensor(a / b)).item()
            if (isinstance(n.func, ast.Attribute) and n.func.attr == "item" and not n.args
                    and self._is_call(n.func.value, "torch.ceil") and len(n.func.value.args) == 1
                    and self._is_call(n.func.value.args[0], "torch.tensor")
                    and len(n.func.value.args[0].args) == 1):
                a, b = self.ratio(n.func.value.args[0].args[0])
                return f"(ceilDiv {a} {b})"
            # np.log2(x).astype(int)
            if (isinstance(n.func, ast.Attribute) and n.func.attr == "astype" and len(n.args) == 1
                    and isinstance(n.args[0], ast.Name) and n.args[0].id == "int"
                    and self._is_call(n.func.value, "np.log2") and len(n.func.value.args) == 1):
                a, b = self.ratio(n.func.value.args[0])
                return f"(log2Trunc {a} {b})"
            if isinstance(n.func, ast.Name) and n.func.id == "int" and len(n.args) == 1 and not n.keywords:
                inner = n.args[0]
                if self._is_call(inner, "math.log2") or self._is_call(inner, "np.log2"):
                    a, b = self.ratio(inner.args[0])
                    return f"(log2Trunc {a} {b})"
                return self.expr(inner)
            if isinstance(n.func, ast.Name) and n.func.id in ("max", "min") and len(n.args) == 2 and not n.keywords:
                return f"({n.func.id} {self.expr(n.args[0])} {self.expr(n.args[1])})"
        raise Unsupported(f"expression outside the fragment: {_src(n)}")

    # ---- conditions (Bool)
    def cond(self, n) -> str:
        if isinstance(n, ast.Compare) and len(n.ops) == 1:
            op, l, r = n.ops[0], n.left, n.comparators[0]
            if isinstance(op, (ast.Is, ast.IsNot)) and isinstance(r, ast.Constant) and r.value is None:
                nm = self.name(l)
                if nm not in self.optional:
                    raise Unsupported(f"{nm} is not declared optional")
                return f"{nm}_isNone" if isinstance(op, ast.Is) else f"!{nm}_isNone"
            sym = {ast.Lt: "<", ast.LtE: "≤", ast.Gt: ">", ast.GtE: "≥", ast.Eq: "==", ast.NotEq: "!="}.get(type(op))
            if sym:
                return f"decide ({self.expr(l)} {sym} {self.expr(r)})" if sym not in ("==", "!=") \
                    else f"({self.expr(l)} {sym} {self.expr(r)})"
        if isinstance(n, ast.BoolOp):
            j = " && " if isinstance(n.op, ast.And) else " || "
            return "(" + j.join(self.cond(v) for v in n.values) + ")"
        if isinstance(n, ast.UnaryOp) and isinstance(n.op, ast.Not):
            return f"!({self.cond(n.operand)})"
        raise Unsupported(f"condition outside the fragment: {_src(n)}")

    # ---- statements
    def body(self, stmts, outputs) -> list[str]:
        lines = []
        for st in stmts:
            if isinstance(st, ast.Expr) and isinstance(st.value, ast.Constant) and isinstance(st.value.value, str):
                continue
            if isinstance(st, ast.Assign) and len(st.targets) == 1 and isinstance(st.targets[0], ast.Name):
                v = st.targets[0].id
                lines.append(f"let {v} : Int := {self.expr(st.value)}")
                self.locals.add(v)
                continue
            if isinstance(st, ast.If):
                c = self.cond(st.test)
                then = self._assigns(st.body)
                els = self._assigns(st.orelse)
                for v in list(dict.fromkeys(list(then) + list(els))):
                    if v not in self.locals and not (v in then and v in els):
                        raise Unsupported(f"{v} assigned on one branch only and not defined before")
                    t = then.get(v, v)
                    e = els.get(v, v)
                    lines.append(f"let {v} : Int := if {c} then {t} else {e}")
                    self.locals.add(v)
                continue
            if isinstance(st, ast.Return):
                if outputs is None:
                    lines.append(self.expr(st.value))
                else:
                    if not (isinstance(st.value, ast.Call) and isinstance(st.value.func, ast.Name)
                            and st.value.func.id == "cls"):
                        raise Unsupported(f"return is not cls(...): {_src(st)}")
                    kw = {k.arg: k.value for k in st.value.keywords}
                    missing = [o for o in outputs if o not in kw]
                    if missing:
                        raise Unsupported(f"cls(...) lacks keyword(s) {missing}")
                    lines.append("(" + ", ".join(self.expr(kw[o]) for o in outputs) + ")")
                return lines
            raise Unsupported(f"statement outside the fragment: {_src(st)[:80]}")
        raise Unsupported("no return")

    def _assigns(self, stmts) -> dict:
        out = {}
        for st in stmts:
            if isinstance(st, ast.Assign) and len(st.targets) == 1 and isinstance(st.targets[0], ast.Name):
                out[st.targets[0].id] = self.expr(st.value)
            else:
                raise Unsupported(f"branch statement outside the fragment: {_src(st)[:80]}")
        return out


def find_func(tree, cls, func):
    for node in tree.body:
        if isinstance(node, ast.ClassDef) and node.name == cls:
            for f in node.body:
                if isinstance(f, ast.FunctionDef) and f.name == func:
                    return f
    raise Unsupported(f"{cls}.{func} not found")


def translate_one(repo: Path, t: dict) -> str:
    src = (repo / t["file"]).read_text()
    f = find_func(ast.parse(src), t["cls"], t["func"])
    tr = Tr(t["params"], t["optional"])
    lines = tr.body(f.body, t["outputs"])
    binders = "".join(f" ({p}_isNone : Bool)" for p in t["optional"]) + " (" + " ".join(t["params"]) + " : Int)"
    ret = "Int" if t["outputs"] is None else " × ".join(["Int"] * len(t["outputs"]))
    body = "\n".join("  " + l for l in lines)
    return (f"/-- generated from `{t['file']}` `{t['cls']}.{t['func']}`"
            + (f" (returns {', '.join(t['outputs'])})" if t["outputs"] else "") + " -/\n"
            f"def {t['lean']}{binders} : {ret} :=\n{body}\n")


def _plain(node):
    if isinstance(node, ast.Name):
        return node.id
    if isinstance(node, ast.Attribute) and isinstance(node.value, ast.Name) and node.value.id == "self":
        return node.attr
    return None


def translate_filters(repo: Path, t: dict) -> str:
    """`<var> = int(filters * (filters_rate ** E))` in the `for block in range(<loop_over>)` loop of
    `<cls>.__init__`  ->  `def <lean> (filters : Nat) (r : Rate) (<params> : Int) : Nat := scale filters r E`"""
    init = find_func(ast.parse((repo / t["file"]).read_text()), t["cls"], "__init__")
    loops = [n for n in ast.walk(init) if isinstance(n, ast.For) and isinstance(n.iter, ast.Call)
             and _plain(n.iter.func) == "range" and len(n.iter.args) == 1 and _plain(n.iter.args[0]) == t["loop_over"]]
    if len(loops) != 1:
        raise Unsupported(f"expected one `for block in range({t['loop_over']})` loop, found {len(loops)}")
    assigns = [st for st in loops[0].body if isinstance(st, ast.Assign) and len(st.targets) == 1
               and _plain(st.targets[0]) == t["var"]]
    if len(assigns) != 1:
        raise Unsupported(f"expected one assignment to {t['var']} in the loop, found {len(assigns)}")
    v = assigns[0].value
    ok = (isinstance(v, ast.Call) and _plain(v.func) == "int" and len(v.args) == 1 and isinstance(v.args[0], ast.BinOp)
          and isinstance(v.args[0].op, ast.Mult) and _plain(v.args[0].left) == "filters"
          and isinstance(v.args[0].right, ast.BinOp) and isinstance(v.args[0].right.op, ast.Pow)
          and _plain(v.args[0].right.left) == "filters_rate")
    if not ok:
        raise Unsupported(f"filter count is not int(filters * (filters_rate ** e)): {_src(v)}")
    e = Tr(t["params"], []).expr(v.args[0].right.right)
    return (f"/-- generated from `{t['file']}` `{t['cls']}.__init__`, loop over `{t['loop_over']}`: `{t['var']}` -/\n"
            f"def {t['lean']} (filters : Nat) (r : Rate) ({' '.join(t['params'])} : Int) : Nat :=\n"
            f"  scale filters r {e}\n")


def generate(repo: Path):
    """-> (lean text | None, problems)"""
    parts, problems = [], []
    for t in TARGETS:
        try:
            parts.append(translate_one(repo, t))
        except (Unsupported, SyntaxError, OSError) as e:
            problems.append(f"{t['file']}:{t['cls']}.{t['func']}: {e}")
    for t in FILTER_TARGETS:
        try:
            parts.append(translate_filters(repo, t))
        except (Unsupported, SyntaxError, OSError) as e:
            problems.append(f"{t['file']}:{t['cls']}.__init__[{t['var']} / {t['loop_over']}]: {e}")
    if problems:
        return None, problems
    text = ("import SleapVerif.Model.Arch\n"
            "/-! GENERATED by harness/py2lean.py from the Python source of sleap-nn — do not edit.\n"
            "Regenerated on every run of `bin/check C14`; theorems `gen_*` in `Props/C14.lean` are about these. -/\n"
            "namespace SleapVerif.Gen.TranslatedArch\nopen SleapVerif.Arch\n\n"
            + "\n".join(parts) + "\nend SleapVerif.Gen.TranslatedArch\n")
    return text, []


def sync(repo: Path, lean_dir: Path):
    """Regenerate; rewrite the file only when it differs.  -> (changed, problems)"""
    text, problems = generate(repo)
    if text is None:
        return False, problems
    p = lean_dir / GEN_REL
    if not p.exists() or p.read_text() != text:
        p.parent.mkdir(parents=True, exist_ok=True)
        p.write_text(text)
        return True, []
    return False, []


if __name__ == "__main__":
    import sys

    txt, probs = generate(Path(sys.argv[1] if len(sys.argv) > 1 else "/repo"))
    print(txt if txt else "UNSUPPORTED:\n" + "\n".join(probs))
