"""Common machinery for every property check.

A check = (1) build the Lean library + audit the property's theorems (proof obligations),
(2) correspondence: run model (Lean driver) and implementation (/repo working tree) on the
same seeded inputs, (3) failing-input search with the property oracle when (1) or (2) break,
(4) known-findings handling, evidence, exit code.

Exit codes: 0 held / only known findings; 1 violation (a VIOLATION line was printed);
2 infrastructure problem or timeout (never a verdict).
"""
from __future__ import annotations

import argparse
import fcntl
import hashlib
import json
import os
import random
import re
import subprocess
import sys
import time
import traceback
from fractions import Fraction
from pathlib import Path

VERIF = Path(__file__).resolve().parent.parent
LEAN = VERIF / "lean"
REPO = Path(os.environ.get("SLEAP_NN_REPO", "/repo"))
EVID = Path(os.environ.get("VERIF_EVIDENCE_DIR") or (VERIF / "evidence"))  # override only for seeded-mutation runs
REPLAYS = Path(os.environ.get("VERIF_REPLAY_DIR") or (VERIF / "replays"))
CORPUS = VERIF / "corpus"
KNOWN = VERIF / "KNOWN_FINDINGS.json"
_IMPL_STARTED = False
STD_AXIOMS = {"propext", "Classical.choice", "Quot.sound"}
FORBIDDEN = re.compile(
    r"\bsorry\b|\badmit\b|^\s*axiom\s|native_decide|bv_decide|implemented_by|\bunsafe\s|maxHeartbeats\s+0\b"
)

for _v in ("OMP_NUM_THREADS", "MKL_NUM_THREADS", "OPENBLAS_NUM_THREADS"):
    os.environ.setdefault(_v, os.environ.get("VERIF_TORCH_THREADS", "2"))
os.environ.setdefault("SLEAP_NN_VERIF", "1")
os.environ.setdefault("WANDB_MODE", "offline")
os.environ.setdefault("CUDA_VISIBLE_DEVICES", "")


# --------------------------------------------------------------------------- repo import
def import_repo():
    """Make `import sleap_nn` resolve to /repo's working tree and apply environment shims
    (these live here, never in /repo)."""
    if str(REPO) not in sys.path:
        sys.path.insert(0, str(REPO))
    import torch  # noqa

    torch.set_num_threads(int(os.environ.get("VERIF_TORCH_THREADS", "2")))
    try:
        import kornia.core as kc  # installed kornia dropped the alias the repo imports

        if not hasattr(kc, "Tensor"):
            kc.Tensor = torch.Tensor
    except Exception:
        pass
    import sleap_nn  # noqa

    global _IMPL_STARTED
    _IMPL_STARTED = True
    p = Path(sleap_nn.__file__).resolve()
    if REPO.resolve() not in p.parents:
        raise RuntimeError(f"sleap_nn resolves to {p}, not under {REPO}")
    return sleap_nn


# --------------------------------------------------------------------------- rationals
def rat(x) -> str:
    """Exact rational string of a python int/float/Fraction (floats are dyadic rationals)."""
    if x is None:
        return "nan"
    if isinstance(x, float):
        if x != x:
            return "nan"
        x = Fraction(x)
    elif not isinstance(x, Fraction):
        try:
            import numpy as np

            if isinstance(x, np.floating):
                xf = float(x)
                if xf != xf:
                    return "nan"
                x = Fraction(xf)
            else:
                x = Fraction(int(x))
        except ImportError:
            x = Fraction(int(x))
    return str(x.numerator) if x.denominator == 1 else f"{x.numerator}/{x.denominator}"


def unrat(s: str):
    if s == "nan":
        return None
    if s.startswith("fb"):
        import struct

        return struct.unpack("<d", struct.pack("<Q", int(s[2:])))[0]
    return Fraction(s)


def lst(xs, f=str) -> str:
    xs = list(xs)
    return " ".join([str(len(xs))] + [f(x) for x in xs])


# --------------------------------------------------------------------------- lean side
class LeanError(Exception):
    pass


def _lake_lock():
    LEAN.mkdir(exist_ok=True)
    fh = open(LEAN / ".verif-build.lock", "w")
    fcntl.flock(fh, fcntl.LOCK_EX)
    return fh


def lake_build(targets=()) -> tuple[bool, str]:
    fh = _lake_lock()
    try:
        p = subprocess.run(
            ["lake", "build", *targets], cwd=LEAN, capture_output=True, text=True, timeout=3000
        )
        return p.returncode == 0, (p.stdout + p.stderr)[-6000:]
    finally:
        fh.close()


def import_closure(modules) -> list[Path]:
    """Lean source files of `modules` and everything under SleapVerif they (transitively) import."""
    seen: dict[str, Path] = {}
    todo = list(modules)
    while todo:
        m = todo.pop()
        if m in seen or not m.startswith("SleapVerif."):
            continue
        f = LEAN / (m.replace(".", "/") + ".lean")
        if not f.exists():
            continue
        seen[m] = f
        for line in f.read_text().splitlines():
            mm = re.match(r"\s*(?:public\s+)?import\s+(SleapVerif\.[A-Za-z0-9_.]+)", line)
            if mm:
                todo.append(mm.group(1))
    return sorted(seen.values())


def grep_audit(modules=None) -> list[str]:
    """Forbidden constructs (sorry, axiom, native_decide, …) outside comments.  With `modules`
    given, only the import closure of those modules is scanned, so a file of another property
    that is mid-edit cannot break this property's check; without, the whole library."""
    hits = []
    files = import_closure(modules) if modules else sorted((LEAN / "SleapVerif").rglob("*.lean"))
    for f in files:
        in_block = 0
        for i, line in enumerate(f.read_text().splitlines(), 1):
            s = line
            out = ""
            j = 0
            while j < len(s):
                if s.startswith("/-", j):
                    in_block += 1
                    j += 2
                elif s.startswith("-/", j) and in_block:
                    in_block -= 1
                    j += 2
                else:
                    if not in_block:
                        out += s[j]
                    j += 1
            out = out.split("--")[0]
            if FORBIDDEN.search(out):
                hits.append(f"{f.relative_to(LEAN)}:{i}: {line.strip()}")
    return hits


def axiom_audit(module: str, theorems: list[str]) -> dict[str, object]:
    """Returns {theorem: sorted axiom list | 'ERROR: …'} using `#print axioms`."""
    src = f"import {module}\n" + "".join(f"#print axioms {t}\n" for t in theorems)
    tmp = LEAN / f".audit_{module.replace('.', '_')}_{os.getpid()}.lean"
    tmp.write_text(src)
    try:
        p = subprocess.run(
            ["lake", "env", "lean", str(tmp.name)], cwd=LEAN, capture_output=True, text=True, timeout=1800
        )
    finally:
        tmp.unlink(missing_ok=True)
    text = p.stdout + p.stderr
    res: dict[str, object] = {}
    flat = re.sub(r"\s+", " ", text)
    for t in theorems:
        m = re.search(r"'" + re.escape(t) + r"' depends on axioms: \[([^\]]*)\]", flat)
        if m:
            res[t] = sorted(a.strip() for a in m.group(1).split(",") if a.strip())
            continue
        if re.search(r"'" + re.escape(t) + r"' does not depend on any axioms", flat):
            res[t] = []
            continue
        res[t] = "ERROR: " + text[-400:]
    return res


def run_driver(driver: str, lines: list[str], timeout=1800) -> list[str]:
    """Pipe `lines` through `lake env lean --run drivers/<driver>`; one output line per input."""
    if not lines:
        return []
    p = subprocess.run(
        ["lake", "env", "lean", "--run", f"drivers/{driver}"],
        cwd=LEAN,
        input="\n".join(lines) + "\n",
        capture_output=True,
        text=True,
        timeout=timeout,
    )
    if p.returncode != 0:
        raise LeanError(f"driver {driver} failed rc={p.returncode}: {(p.stdout + p.stderr)[-2000:]}")
    out = p.stdout.splitlines()
    if len(out) != len(lines):
        raise LeanError(f"driver {driver}: {len(lines)} lines in, {len(out)} out; tail: {p.stderr[-500:]}")
    return out


def load_known(pid: str) -> list[dict]:
    """Known findings live in one committed file, KNOWN_FINDINGS.json (generated by bin/mkknown
    from the per-property sources known_findings/Cxx.json); it is never written at run time."""
    if not KNOWN.exists():
        return []
    return [e for e in json.loads(KNOWN.read_text())["findings"] if e["property"] == pid]


# --------------------------------------------------------------------------- the check object
class Check:
    def __init__(self, pid: str, module: str, theorems: list[str], trusted: list[str], rule: str,
                 assumptions: list[str] | None = None, build_targets: list[str] | None = None):
        ap = argparse.ArgumentParser()
        ap.add_argument("pid", nargs="?")
        ap.add_argument("--tier", default=os.environ.get("VERIF_TIER", "quick"))
        ap.add_argument("--replay", default=None)
        ap.add_argument("--no-build", action="store_true")
        a, _ = ap.parse_known_args()
        self.pid = pid
        self.tier = a.tier if a.tier in ("quick", "thorough") else "quick"
        self.replay_path = a.replay
        self.no_build = a.no_build
        self.seed = int(os.environ.get("VERIF_SEED", "0") or 0)
        self.rng = random.Random(f"{pid}:{self.seed}")
        self.module = module
        # only this property's modules are built, so a broken file elsewhere cannot break this check
        self.build_targets = list(build_targets or []) + [module]
        self.theorems = theorems
        self.trusted = trusted
        self.rule = rule
        self.assumptions = assumptions or []
        self.t0 = time.time()
        self.evaluations = 0
        self.keys: set = set()
        self.samples: list = []
        self.hist: dict[str, int] = {}
        self.extra: dict[str, object] = {}
        self.obligations = len(theorems)
        self.discharged = 0
        self.broken: list[str] = []          # broken proof obligations / correspondences
        self.disagreements: list[dict] = []  # model vs impl
        self.failing: list[dict] = []        # property oracle failed on impl (concrete input)
        self.known_lines: list[str] = []
        self.knife_edges = 0
        self.impl_started = False  # set by import_repo(): from then on the implementation is in play
        self.thorough = self.tier == "thorough"
        self.known = load_known(pid)

    # ---- sizes
    def n(self, quick: int, thorough: int) -> int:
        return thorough if self.thorough else quick

    # ---- proof obligations
    def build_and_audit(self):
        if self.no_build:
            self.discharged = self.obligations
            return
        ok, log = lake_build(self.build_targets)
        if not ok:
            self.broken.append("lake build failed: " + log[-1500:])
            return
        mods = list(self.build_targets)
        reg_file = VERIF / "harness" / "translated_registry.json"
        if reg_file.exists():
            reg = json.loads(reg_file.read_text()).get(self.pid)
            if reg:
                mods += [reg["module"]] + list(reg.get("build_targets", []))
        hits = grep_audit(mods)
        self.extra["audited_files"] = len(import_closure(mods))
        if hits:
            self.broken.append("forbidden constructs: " + "; ".join(hits[:5]))
        res = axiom_audit(self.module, self.theorems)
        self.extra["axioms"] = {k: v for k, v in res.items()}
        for t, ax in res.items():
            if isinstance(ax, str):
                self.broken.append(f"theorem {t} does not check: {ax[-300:]}")
            elif not set(ax) <= STD_AXIOMS:
                self.broken.append(f"theorem {t} uses non-standard axioms {ax}")
            else:
                self.discharged += 1
        self._audit_translated()
        if self.thorough and not self.broken:
            try:
                p = subprocess.run(["lake", "env", "leanchecker", self.module], cwd=LEAN,
                                   capture_output=True, text=True, timeout=3000)
                self.extra["leanchecker_rc"] = p.returncode
                if p.returncode != 0:
                    self.broken.append("leanchecker rejected " + self.module + ": " + (p.stdout + p.stderr)[-500:])
            except FileNotFoundError:
                self.extra["leanchecker_rc"] = "missing"

    def _audit_translated(self):
        """Second tie (DESIGN §3.3): definitions regenerated from /repo's Python AST on every run
        by harness/py2lean_ext.py, with theorems that link them to the hand model.  Registered per
        property in harness/translated_registry.json:
          {"C20": {"module": "SleapVerif.Props.TranslatedC20", "theorems": [...],
                   "build_targets": ["SleapVerif.Gen.TranslatedC20"]}}"""
        reg_file = VERIF / "harness" / "translated_registry.json"
        if not reg_file.exists():
            return
        reg = json.loads(reg_file.read_text()).get(self.pid)
        if not reg:
            return
        self.obligations += len(reg["theorems"])
        self.extra["translated_theorems"] = reg["theorems"]
        try:
            import py2lean_ext

            note = py2lean_ext.sync(REPO, LEAN, self.pid)  # regenerates Gen file(s) for this property
            self.extra["translator"] = note
        except Exception as e:  # source left the supported fragment, file missing, …
            self.broken.append(f"py2lean_ext could not translate the {self.pid} targets from {REPO}: {type(e).__name__}: {e}")
            return
        ok, log = lake_build(list(reg.get("build_targets", [])) + [reg["module"]])
        if not ok:
            self.broken.append(f"translated definitions no longer satisfy their theorems ({reg['module']}): " + log[-1200:])
            return
        res = axiom_audit(reg["module"], reg["theorems"])
        self.extra.setdefault("axioms", {}).update(res)
        for t, ax in res.items():
            if isinstance(ax, str):
                self.broken.append(f"theorem {t} does not check: {ax[-300:]}")
            elif not set(ax) <= STD_AXIOMS:
                self.broken.append(f"theorem {t} uses non-standard axioms {ax}")
            else:
                self.discharged += 1

    # ---- counting
    def case(self, key, sample=None, tags=()):
        """Register one explored case; `key` hashable identifies distinct non-trivial cases
        (pass None for trivial ones)."""
        self.evaluations += 1
        if key is not None:
            self.keys.add(key if isinstance(key, (str, int, tuple)) else json.dumps(key, sort_keys=True, default=str))
        for t in tags:
            self.hist[t] = self.hist.get(t, 0) + 1
        if sample is not None and len(self.samples) < 5:
            self.samples.append(sample)

    def tag(self, *tags):
        for t in tags:
            self.hist[t] = self.hist.get(t, 0) + 1

    # ---- outcomes
    def disagree(self, what: str, case, impl, model):
        self.disagreements.append({"correspondence": what, "case": case, "impl": impl, "model": model})

    def fail(self, what: str, case, observed=None, signatures=()):
        """The property oracle failed on the implementation at a concrete input."""
        self.failing.append({"what": what, "case": case, "observed": observed, "signatures": list(signatures)})

    def known_replay(self, fid: str, still_fails: bool, detail: str = ""):
        """Report the outcome of replaying the witness of a KNOWN_FINDINGS entry."""
        ent = next((f for f in self.known if f["id"] == fid), None)
        if ent is None:
            raise RuntimeError(f"{fid} not in KNOWN_FINDINGS.json")
        if ent["status"] == "known":
            if still_fails:
                self.known_lines.append(f"KNOWN-FINDING: property={self.pid} {ent['id']} {ent['text']}")
            else:
                print(f"NOTE: known finding {fid} no longer reproduces ({detail})")
        else:  # fixed: suppresses nothing
            if still_fails:
                self.fail(f"regression of fixed finding {fid}: {ent['text']}", ent.get("witness"), detail, ())

    # ---- finish
    def _write_replay(self, payload) -> str:
        REPLAYS.mkdir(exist_ok=True)
        blob = json.dumps(payload, sort_keys=True, default=str, indent=1)
        h = hashlib.sha1(blob.encode()).hexdigest()[:10]
        p = REPLAYS / f"{self.pid}-{h}.json"
        p.write_text(blob)
        try:
            return str(p.relative_to(VERIF))
        except ValueError:
            return str(p)

    def finish(self, write=True):
        lines = []
        n_viol = 0
        known_sigs = {f["signature"]: f for f in self.known if f["status"] == "known" and f.get("signature")}
        seen_known = set()
        for f in self.failing:
            hit = next((known_sigs[s] for s in f["signatures"] if s in known_sigs), None)
            if hit is not None:
                if hit["id"] not in seen_known:
                    seen_known.add(hit["id"])
                    line = f"KNOWN-FINDING: property={self.pid} {hit['id']} {hit['text']}"
                    if line not in self.known_lines:
                        self.known_lines.append(line)
                continue
            n_viol += 1
            if n_viol <= 3:
                rp = self._write_replay({"property": self.pid, "seed": self.seed, "tier": self.tier,
                                         "kind": "failing-input", **f,
                                         "broken": self.broken, "disagreements": self.disagreements[:3]})
                lines.append(f"VIOLATION property={self.pid} replay={rp}")
        if n_viol == 0 and (self.broken or self.disagreements):
            # property no longer shown to hold, but no failing input found
            unexplained = self.disagreements
            if unexplained or self.broken:
                n_viol += 1
                rp = self._write_replay({"property": self.pid, "seed": self.seed, "tier": self.tier,
                                         "kind": "no-failing-input-found",
                                         "broken_obligations": self.broken,
                                         "broken_correspondence": sorted({d["correspondence"] for d in self.disagreements}),
                                         "disagreements": self.disagreements[:5]})
                lines.append(f"VIOLATION property={self.pid} replay={rp} no-failing-input-found")
        for l in self.known_lines:
            print(l)
        for l in lines:
            print(l)
        if write:
            self.write_evidence(n_viol)
        dt = time.time() - self.t0
        print(f"[{self.pid}] tier={self.tier} seed={self.seed} obligations={self.discharged}/{self.obligations} "
              f"cases={self.evaluations} distinct={len(self.keys)} disagreements={len(self.disagreements)} "
              f"failing={len(self.failing)} known={len(self.known_lines)} violations={n_viol} wall={dt:.1f}s")
        sys.exit(1 if n_viol else 0)

    def write_evidence(self, n_viol: int):
        EVID.mkdir(exist_ok=True)
        ev = {
            "property_id": self.pid,
            "tier": self.tier,
            "seed": self.seed,
            "level": "proof",
            "coverage": {
                "obligations": self.obligations,
                "discharged": self.discharged,
                "checker_cmd": f"cd lean && lake build && lake env lean <(#print axioms of {self.module} theorems)"
                               + ("; lake env leanchecker " + self.module if self.thorough else ""),
                "trusted_base": self.trusted,
                "theorems": self.theorems,
                "evaluations": self.evaluations,
                "distinct_nontrivial": len(self.keys),
                "rule": self.rule,
                "samples": self.samples[:5] or ["(no correspondence cases: obligations only)"],
                "histogram": dict(sorted(self.hist.items())),
                "knife_edges_skipped": self.knife_edges,
                "correspondence_disagreements": len(self.disagreements),
                "broken_obligations": self.broken,
                "known_findings_printed": self.known_lines,
                **self.extra,
            },
            "assumptions": self.assumptions,
            "wall_s": round(time.time() - self.t0, 2),
            "violations": n_viol,
        }
        (EVID / f"{self.pid}.json").write_text(json.dumps(ev, indent=1, default=str, sort_keys=True))


def _exit_now(code):
    """Leave with `code`.  If a non-daemon thread started by the code under test is still alive (a
    reader thread blocked in `queue.put` after its consumer stopped: the limit recorded for C13),
    the interpreter would wait for it forever at shutdown, after the verdict and the evidence have
    been written; in that case run the exit handlers and leave without joining."""
    import threading
    stray = [t for t in threading.enumerate() if t is not threading.main_thread() and not t.daemon and t.is_alive()]
    if not stray:
        raise SystemExit(code)
    print(f"note: {len(stray)} non-daemon thread(s) still alive at exit ({', '.join(t.name for t in stray[:5])}); "
          "leaving without joining them", file=sys.stderr)
    sys.stdout.flush()
    sys.stderr.flush()
    try:
        import atexit
        atexit._run_exitfuncs()
    finally:
        sys.stdout.flush()
        sys.stderr.flush()
        os._exit(code if isinstance(code, int) else (0 if code is None else 1))


def run_check(chk: "Check", main, replay=None):
    """`_run_check`, then leave through `_exit_now` (never hangs on a stray reader thread)."""
    try:
        _run_check(chk, main, replay)
    except SystemExit as e:
        _exit_now(e.code)
    _exit_now(0)


def _run_check(chk: "Check", main, replay=None):
    """Wrap a harness main.  Harness/infrastructure errors exit 2 (never a verdict); an
    exception that escapes from /repo code is a broken correspondence (the model never
    raises there), reported through the normal channel."""
    try:
        if chk.replay_path and replay is not None:
            # `bin/check Cxx --replay <file>`: re-execute the recorded case only
            chk.no_build = True
            chk.build_and_audit()
            replay(chk, json.loads(Path(chk.replay_path).read_text()))
            chk.finish(write=False)
        main(chk)
        chk.finish()
    except SystemExit:
        raise
    except subprocess.TimeoutExpired as e:
        print(f"TIMEOUT: {e}", file=sys.stderr)
        sys.exit(2)
    except Exception as e:
        tb = traceback.extract_tb(e.__traceback__)
        in_repo = [f for f in tb if str(REPO / "sleap_nn") in f.filename]
        traceback.print_exc()
        if in_repo and not isinstance(e, LeanError):
            last = in_repo[-1]
            chk.disagree("implementation raised where the model does not",
                         {"where": f"{last.filename}:{last.lineno} in {last.name}"},
                         f"raise:{type(e).__name__}: {str(e)[:300]}", "ok")
            chk.finish()
        if (chk.impl_started or _IMPL_STARTED) and not isinstance(e, (LeanError, OSError, MemoryError)):
            # The harness could not interpret what the implementation returned (wrong shape,
            # missing key, empty tensor …).  On the unchanged tree this never happens (it would be
            # a broken check either way); on a changed tree it means the correspondence no longer
            # holds, so it is reported through the normal channel rather than as exit 2.
            last = tb[-1]
            chk.disagree("harness could not interpret the implementation's output",
                         {"where": f"{last.filename}:{last.lineno} in {last.name}"},
                         f"{type(e).__name__}: {str(e)[:300]}", "well-formed output")
            chk.finish()
        print("INFRASTRUCTURE-ERROR (exit 2, not a verdict)", file=sys.stderr)
        sys.exit(2)


def call(fn, *a, **k):
    """Canonicalised call of implementation code: ('ok', value) | ('raise', ClassName)."""
    try:
        return ("ok", fn(*a, **k))
    except Exception as e:  # noqa
        return ("raise", type(e).__name__, str(e)[:200])
