"""C04 — images and keypoints stay registered through all geometric preprocessing.

Model: lean/SleapVerif/Model/Geometry.lean (+ Gen/TranslatedGeometry.lean, regenerated from the
Python source of the checked tree on every run); theorems: lean/SleapVerif/Props/C04.lean.

Correspondence (every run, real code in-process):
  * functional API of sleap_nn.data.{resizing,instance_cropping,augmentation} and the four
    Dataset classes' __getitem__ (in-memory sio.Labels, skeleton of minimal_instance.pkg.slp),
    on MARKER IMAGES: faint constant background + one bright Gaussian blob per keypoint.
  * after the real transform each blob's intensity centroid is measured and compared
      (i)  with the model's content map            |Δ| ≤ TOL_CONTENT  (validates that torchvision /
           kornia / F.pad realise the maps the model assumes),
      (ii) with the keypoints the code returned     < 1 px            (the property itself; the
           oracle — independent of the model),
    keypoints / sizes / bboxes / crop sizes are compared with the model exactly (sizes) or to
    TOL_KP (float32 coordinates), pad strips must be all-zero and at the bottom/right.
  * the regions the `_partial` theorems exclude (total up-scaling ≥ 3; integer target size
    ≠ n·factor) are sampled as well; oracle failures there are matched against
    known_findings/C04.json by structural signature.
"""
from __future__ import annotations

import math
import os
import sys
from fractions import Fraction
from pathlib import Path

import numpy as np

from common import LEAN, REPO, Check, call, import_repo, lst, rat, run_check, run_driver, unrat

import py2lean_c04

THEOREMS = [
    "SleapVerif.C04.gen_eq_model",
    "SleapVerif.C04.pad_minimal",
    "SleapVerif.C04.pad_size_multiple",
    "SleapVerif.C04.pad_bottom_right",
    "SleapVerif.C04.sizematch_rel",
    "SleapVerif.C04.sizematch_exact_size",
    "SleapVerif.C04.sizematch_out_size",
    "SleapVerif.C04.sizematch_registered",
    "SleapVerif.C04.sizematch_registered_lt_two",
    "SleapVerif.C04.sizematch_offset_exact_axis",
    "SleapVerif.C04.sizematch_registered_counterexample",
    "SleapVerif.C04.sizematch_registered_lt3_counterexample",
    "SleapVerif.C04.resizeSize_floor",
    "SleapVerif.C04.resize_registered",
    "SleapVerif.C04.resize_registered_counterexample",
    "SleapVerif.C04.crop_registered",
    "SleapVerif.C04.crop_size_exact",
    "SleapVerif.C04.recrop_centred",
    "SleapVerif.C04.recrop_registered",
    "SleapVerif.C04.overcrop_contains_recrop",
    "SleapVerif.C04.cropsize_multiple_and_covers",
    "SleapVerif.C04.intensity_keeps_keypoints",
    "SleapVerif.C04.augment_same_map",
    "SleapVerif.C04.warpS_inv",
    "SleapVerif.C04.augment_registered_square",
    "SleapVerif.C04.augment_translation_offset",
    "SleapVerif.C04.chain_offset_exact",
    "SleapVerif.C04.chain_registered_iff_lt_three",
    "SleapVerif.C04.getItem_cache_unchanged",
    "SleapVerif.C04.read_history_independent",
    "SleapVerif.C04.chain_split",
    "SleapVerif.C04.reread_registered",
    "SleapVerif.C04.augment_offset",
    "SleapVerif.C04.augment_offset_bound_inframe",
    "SleapVerif.C04.shape_factor",
    "SleapVerif.C04.augment_registered_counterexample",
    "SleapVerif.C04.run_snoc",
    "SleapVerif.C04.run_append",
    "SleapVerif.C04.offset_pad",
    "SleapVerif.C04.offset_intensity",
    "SleapVerif.C04.offset_crop",
    "SleapVerif.C04.offset_recrop",
    "SleapVerif.C04.offset_resize",
    "SleapVerif.C04.offset_aug",
    "SleapVerif.C04.size_after_pad",
    "SleapVerif.C04.centroid_after_crop",
    "SleapVerif.C04.centered_chain",
    "SleapVerif.C04.base_chain",
    "SleapVerif.C04.sm_rs_offset_bound",
    "SleapVerif.C04.sizematch_option",
    "SleapVerif.C04.sizematch_out_size_option",
    "SleapVerif.C04.cropsize_empty",
    "SleapVerif.C04.cropsize_empty_below_min",
]

TOL_CONTENT = 0.15   # px: measured blob centroid vs model content map (observed ≤ 0.03 on the pinned tree)
TOL_KP = 2e-3        # px: float32 keypoints vs exact rational model (+ 2e-5 relative)
ORACLE_PX = 1.0      # the property: content within one output pixel of the returned keypoint
KNIFE = 0.15         # model-predicted offsets within KNIFE of ORACLE_PX are knife-edges (skipped, counted)
BG = 16              # faint background (uint8) so that zero padding is distinguishable from content
SLP = "tests/assets/minimal_instance.pkg.slp"

torch = None  # set in main after import_repo
OC_TABLE = {}  # crop side → Geometry.overcropSize (filled once per run from the driver)
STATS = {"knife_blobs": 0, "knife_reads_size_compare_skipped": 0, "knife_size_cases": 0, "blobs_measured": 0, "blob_outside_or_border": 0, "blobs_too_close": 0, "max_content_residual_px": 0.0, "max_registration_err_px": 0.0}


# =========================================================================== marker images
def make_marker(h, w, pts, sigma, channels=1):
    """uint8 (h, w, c): background BG + one Gaussian blob (peak 255) per finite point."""
    yy, xx = np.mgrid[0:h, 0:w].astype(np.float64)
    img = np.zeros((h, w))
    for (x, y) in pts:
        if x is None or y is None:
            continue
        img += np.exp(-((xx - x) ** 2 + (yy - y) ** 2) / (2.0 * sigma * sigma))
    img = np.clip(BG + (255 - BG) * img, 0, 255)
    return np.repeat(np.round(img).astype(np.uint8)[:, :, None], channels, axis=2)


def measure(img2d, guess, r):
    """Intensity centroid of the blob near `guess`: windowed (radius r), thresholded at 35 % of the
    local range above the local floor, iterated.  None when there is no blob / the window leaves
    the image."""
    h, w = img2d.shape
    cx, cy = guess
    r = max(2.0, r)
    for _ in range(8):
        x0, x1 = int(math.floor(cx - r)), int(math.ceil(cx + r))
        y0, y1 = int(math.floor(cy - r)), int(math.ceil(cy + r))
        if x0 < 0 or y0 < 0 or x1 > w - 1 or y1 > h - 1:
            return None
        sub = img2d[y0:y1 + 1, x0:x1 + 1].astype(np.float64)
        lo, hi = float(sub.min()), float(sub.max())
        if hi - lo < 0.08:
            return None
        wgt = np.clip(sub - (lo + 0.35 * (hi - lo)), 0, None)
        yy, xx = np.mgrid[y0:y1 + 1, x0:x1 + 1]
        m = wgt.sum()
        nx, ny = float((wgt * xx).sum() / m), float((wgt * yy).sum() / m)
        done = abs(nx - cx) < 1e-3 and abs(ny - cy) < 1e-3
        cx, cy = nx, ny
        if done:
            break
    return cx, cy


def gen_points(rng, h, w, n, sigma, margin_sig=3.5, first=None):
    """n points on the 1/16 lattice, ≥ 8σ apart and ≥ margin_sig·σ from the border (fewer when
    they do not fit); `first` seeds the list with a given point."""
    m = margin_sig * sigma
    pts = [first] if first is not None else []
    if w - 1 - 2 * m <= 1 or h - 1 - 2 * m <= 1:
        return pts
    for _ in range(200):
        if len(pts) >= n:
            break
        x = rng.randrange(int(16 * m), int(16 * (w - 1 - m)) + 1) / 16
        y = rng.randrange(int(16 * m), int(16 * (h - 1 - m)) + 1) / 16
        if all(max(abs(x - a), abs(y - b)) >= 8 * sigma for a, b in pts):
            pts.append((x, y))
    return pts


# =========================================================================== helpers
def frac(x):
    return x if isinstance(x, Fraction) else Fraction(x)


def fr_s(x):
    return rat(frac(x))


def close(a, b, tol=TOL_KP):
    return abs(a - b) <= tol + 2e-5 * abs(b)


def t2l(t):
    return [[None if v != v else float(v) for v in row] for row in t.reshape(-1, 2).tolist()]


class Rec:
    """Recording wrapper around kornia's AugmentationSequential as used by
    sleap_nn.data.augmentation (shim in the harness, nothing in /repo)."""
    log: list = []
    align = False   # RandomAffine(align_corners=…) of the last call: selects the model's `aug` / `auga`

    @classmethod
    def install(cls):
        import sleap_nn.data.augmentation as aug
        orig = aug.AugmentationSequential
        if getattr(orig, "_c04_rec", False):
            return

        class Recording(orig):
            _c04_rec = True

            def forward(self, *a, **k):
                out = super().forward(*a, **k)
                names = [type(m).__name__ for m in self.children()]
                tm = self.transform_matrix
                Rec.align = any(bool(getattr(m, "flags", {}).get("align_corners", False))
                                for m in self.children() if type(m).__name__ == "RandomAffine")
                Rec.log.append((names, None if tm is None else tm.detach().clone().double().numpy()))
                return out

        aug.AugmentationSequential = Recording


def smax(mat):
    """largest singular value of the linear part (how much a blob can grow along one direction)"""
    return float(np.linalg.svd(np.asarray(mat, dtype=np.float64).reshape(-1, 3, 3)[0][:2, :2], compute_uv=False)[0])


def aff_of(mat):
    """3x3 (batch 1) float matrix → 6 exact rationals a b c d e f."""
    m = np.asarray(mat, dtype=np.float64).reshape(-1, 3, 3)[0]
    return [Fraction(float(v)) for v in (m[0, 0], m[0, 1], m[0, 2], m[1, 0], m[1, 1], m[1, 2])]


# =========================================================================== in-memory labels
class ArrayBackend:
    def __init__(self, arr):
        self.arr = arr
        self.filename = "marker"
        self.grayscale = arr.shape[-1] == 1
        self.keep_open = True
        self.dataset = None
        self.fps = None

    @property
    def shape(self):
        return tuple(int(x) for x in self.arr.shape)

    def __len__(self):
        return self.arr.shape[0]

    def __getitem__(self, i):
        return self.arr[i]

    def close(self):
        pass


_SKEL = None


def skeleton():
    global _SKEL
    if _SKEL is None:
        import sleap_io as sio
        _SKEL = sio.load_slp(str(REPO / SLP)).skeletons[0]
    return _SKEL


def build_labels(frames):
    """frames: [{h, w, c, sigma, insts: [[(x,y)|(None,None), …], …]}] → sio.Labels with one
    single-frame marker video per entry."""
    import sleap_io as sio

    class MarkerVideo(sio.Video):
        def exists(self, *a, **k):
            return True

        def close(self):
            pass

        __hash__ = object.__hash__
        __eq__ = object.__eq__

    skel = skeleton()
    vids, lfs = [], []
    for fr in frames:
        pts = [p for inst in fr["insts"] for p in inst]
        arr = make_marker(fr["h"], fr["w"], pts, fr["sigma"], fr["c"])[None]
        v = MarkerVideo(filename="marker", backend=ArrayBackend(arr), open_backend=False)
        insts = []
        for inst in fr["insts"]:
            a = np.array([[np.nan if x is None else x, np.nan if y is None else y] for x, y in inst], dtype=np.float64)
            insts.append(sio.Instance.from_numpy(a, skeleton=skel))
        vids.append(v)
        lfs.append(sio.LabeledFrame(video=v, frame_idx=0, instances=insts))
    return sio.Labels(labeled_frames=lfs, videos=vids, skeletons=[skel])


# =========================================================================== case execution
# every case is a JSON-able dict; exec_case returns (driver_lines, obs); judge compares.

def scale_pair(s):
    f = frac(s)
    return f.numerator, f.denominator


def chain_line(h, w, ops, pts):
    toks = ["chain", str(h), str(w), str(len(ops))]
    for op in ops:
        toks += [str(t) for t in op]
    toks += [str(len(pts))]
    for x, y in pts:
        toks += [fr_s(x), fr_s(y)]
    return " ".join(toks)


def parse_chain(out):
    t = out.split()
    if t[0] != "ok":
        return None
    H, W, ns = int(t[1]), int(t[2]), int(t[3])
    i = 4
    sizes = [(int(t[i + 2 * k]), int(t[i + 2 * k + 1])) for k in range(ns)]
    i += 2 * ns
    npt = int(t[i])
    i += 1
    pts = []
    for k in range(npt):
        v = [unrat(t[i + 4 * k + j]) for j in range(4)]
        pts.append({"content": (float(v[0]), float(v[1])), "kp": (float(v[2]), float(v[3]))})
    i += 4 * npt
    cen = (unrat(t[i]), unrat(t[i + 1]))
    cen = None if cen[0] is None else (float(cen[0]), float(cen[1]))
    return {"H": H, "W": W, "sizes": sizes, "pts": pts, "centroid": cen}


def to_float_img(arr):
    """(h,w,c) uint8 → (1,c,h,w) float32 in [0,1] as the functional API receives it."""
    return torch.from_numpy(np.transpose(arr, (2, 0, 1))[None].astype(np.float32) / 255.0)


def exec_case(c):
    k = c["kind"]
    return globals()["exec_" + k](c)


# ---- pad -------------------------------------------------------------------
def exec_pad(c):
    from sleap_nn.data.resizing import apply_pad_to_stride, find_padding_for_stride
    h, w, s = c["h"], c["w"], c["s"]
    r = call(find_padding_for_stride, h, w, s)
    img = torch.full((1, c["c"], h, w), 0.5)
    img[..., 0, 0] = 0.25
    out = call(apply_pad_to_stride, img, s)
    obs = {"pad": list(r[1]) if r[0] == "ok" else "raise"}
    if out[0] == "ok":
        o = out[1]
        oh, ow = o.shape[-2:]
        obs["shape"] = [int(oh), int(ow)]
        obs["tl_same"] = bool(torch.equal(o[..., :h, :w].float(), img))
        obs["strips_zero"] = bool((o[..., h:, :] == 0).all() and (o[..., :, w:] == 0).all())
    else:
        obs["shape"] = "raise"
    return [f"pad {h} {w} {s}"], obs


def judge_pad(chk, c, obs, outs):
    t = outs[0].split()
    mp, gp, sz = [int(t[1]), int(t[2])], [int(t[3]), int(t[4])], [int(t[5]), int(t[6])]
    ok = True
    if obs["pad"] != mp or obs["pad"] != gp:
        chk.disagree("find_padding_for_stride == Geometry.findPaddingForStride == generated", c, obs["pad"], [mp, gp])
        ok = False
    if obs["shape"] != sz:
        chk.disagree("apply_pad_to_stride output size == Geometry.padToStrideSize", c, obs["shape"], sz)
        ok = False
    # oracle (independent): multiple of stride, minimal, bottom/right only
    h, w, s = c["h"], c["w"], c["s"]
    why = None
    if obs["shape"] == "raise" or obs["pad"] == "raise":
        why = "raised"
    else:
        oh, ow = obs["shape"]
        if oh % s or ow % s:
            why = f"padded size {oh}x{ow} not a multiple of {s}"
        elif not (h <= oh < h + s and w <= ow < w + s):
            why = f"padded size {oh}x{ow} not minimal for {h}x{w} stride {s}"
        elif not obs["tl_same"] or not obs["strips_zero"]:
            why = "padding not at the bottom/right (top-left block changed or strips non-zero)"
    if why:
        chk.fail("C04 stride padding: " + why, c, obs)
    return ok and not why


# ---- shared: measuring a set of points on an output image -------------------
def compare_points(chk, c, what, img2d, model_pts, impl_kps, sigma_out, sigs_fn, hist, skip_measure=False, area=None, src=None,
                   neighbours=()):
    """model_pts: [{'content','kp'}], impl_kps: [(x,y)|None]; `area` = (h, w) of the part of the
    output that carries content (the rest is stride padding). Returns True when all agree."""
    ok = True
    H, W = area if area is not None else img2d.shape
    for i, (mp, ik) in enumerate(zip(model_pts, impl_kps)):
        if ik is None or ik[0] is None:
            continue
        # (a) returned keypoints vs the model's keypoint map
        if not (close(ik[0], mp["kp"][0]) and close(ik[1], mp["kp"][1])):
            chk.disagree(f"{what}: returned keypoints == model keypoint map", {**c, "point": i}, list(ik), list(mp["kp"]))
            ok = False
        if skip_measure:
            continue
        if src is not None:
            sh, sw, spts, ssig = src
            sx, sy = spts[i]
            if not (3 * ssig <= sx <= sw - 1 - 3 * ssig and 3 * ssig <= sy <= sh - 1 - 3 * ssig):
                STATS["blob_outside_or_border"] += 1    # blob already truncated in the source frame
                continue
        cx, cy = mp["content"]
        m = 3.0 * sigma_out + 1.5
        if not (m <= cx <= W - 1 - m and m <= cy <= H - 1 - m):
            STATS["blob_outside_or_border"] += 1
            continue
        # the measurement window must hold ONE blob: bound it by half the distance to the nearest other
        # transformed keypoint (model content and returned keypoints both), discard-and-count otherwise
        others = list(neighbours) + [q["content"] for j, q in enumerate(model_pts) if j != i] + \
                 [q for j, q in enumerate(impl_kps) if j != i and q is not None and q[0] is not None]
        dmin = min([math.hypot(cx - q[0], cy - q[1]) for q in others] +
                   [math.hypot(ik[0] - q[0], ik[1] - q[1]) for q in others] + [1e9])
        r_win = min(3.0 * sigma_out + 1.0, dmin / 2 - 0.5)
        if r_win < 2.2 * sigma_out:
            STATS["blobs_too_close"] += 1
            STATS["knife_blobs"] += 1
            chk.knife_edges += 1
            continue
        got = measure(img2d, (cx, cy), r_win)
        if got is None:
            got = measure(img2d, (ik[0], ik[1]), r_win)
        if got is None:
            chk.disagree(f"{what}: blob found where the model's content map puts it", {**c, "point": i}, None, [cx, cy])
            ok = False
            continue
        STATS["blobs_measured"] += 1
        d_model = max(abs(got[0] - cx), abs(got[1] - cy))
        if d_model <= TOL_CONTENT:
            STATS["max_content_residual_px"] = max(STATS["max_content_residual_px"], round(d_model, 4))
        # (b) measured content vs model content map
        if d_model > TOL_CONTENT:
            chk.disagree(f"{what}: measured blob centroid == model content map", {**c, "point": i}, list(got), [cx, cy])
            ok = False
        # (c) the property: measured content vs returned keypoint (oracle, model-free)
        pred = max(abs(cx - mp["kp"][0]), abs(cy - mp["kp"][1]))
        err = max(abs(got[0] - ik[0]), abs(got[1] - ik[1]))
        if c.get("region", "main") == "main":
            STATS["max_registration_err_px"] = max(STATS["max_registration_err_px"], round(err, 3))
        if abs(pred - ORACLE_PX) < KNIFE and d_model <= TOL_CONTENT:
            chk.knife_edges += 1
            STATS["knife_blobs"] += 1
            continue
        if err >= ORACLE_PX:
            sigs = sigs_fn((got[0] - ik[0], got[1] - ik[1]), (cx - mp["kp"][0], cy - mp["kp"][1]))
            chk.fail(f"C04 {what}: image content {err:.2f} px away from the returned keypoint",
                     {**c, "point": i}, {"measured": list(got), "keypoint": list(ik), "model_content": [cx, cy]}, sigs)
            ok = False
    return ok


def signatures(f_total, inexact_x, inexact_y, mix_axes=False, warp=False):
    """Known-finding signatures of an oracle failure.  A signature is granted only when the measured
    offset IS the offset the finding explains: on the failing axis it must agree with the model's
    predicted offset to 0.2 px (any other defect of similar size stays an ordinary violation), and
      upscale_ge_3          total up-scaling factor ≥ 3;
      target_size_rounding  the integer resize target of the FAILING axis is not n·factor
                            (any axis when a rotation has mixed them);
      affine_warp_nonsquare kornia warped the image with align_corners=False on a non-square frame
                            or with a translation (image gets S·A·S⁻¹, keypoints A)."""
    def fn(err_vec, pred_vec):
        ax = 0 if abs(err_vec[0]) >= abs(err_vec[1]) else 1
        if abs(err_vec[ax] - pred_vec[ax]) > 0.2:
            return []
        s = []
        if f_total >= 3:
            s.append("upscale_ge_3")
        if (inexact_x or inexact_y) if mix_axes else (inexact_x, inexact_y)[ax]:
            s.append("target_size_rounding")
        if warp:
            s.append("affine_warp_nonsquare")
        return s
    return fn


def sm_tie(h, w, mh, mw):
    """round() of the size matcher sits on an exact tie k + ½ (evaluated in doubles by the code:
    either neighbour may come out) — a knife-edge."""
    applied, eff, _ = sm_facts(h, w, mh, mw)
    return applied and ((h * eff).denominator == 2 or (w * eff).denominator == 2)


def sm_facts(h, w, mh, mw):
    """(applied, eff, inexact target on some axis) from the sizes alone."""
    mh2 = h if mh is None else mh
    mw2 = w if mw is None else mw
    if h == mh2 and w == mw2:
        return False, Fraction(1), False
    eff = min(Fraction(mh2, h), Fraction(mw2, w))
    return True, eff, (h * eff).denominator != 1 or (w * eff).denominator != 1


# ---- sizematcher (functional) -----------------------------------------------
def exec_sm(c):
    from sleap_nn.data.resizing import apply_sizematcher
    arr = make_marker(c["h"], c["w"], c["pts"], c["sigma"], c["c"])
    r = call(apply_sizematcher, to_float_img(arr), c["mh"], c["mw"])
    lines = [f"sm {c['h']} {c['w']} {c['mh'] or 0} {c['mw'] or 0}",
             chain_line(c["h"], c["w"], [("sm", c["mh"] or 0, c["mw"] or 0)], c["pts"])]
    if r[0] != "ok":
        return lines, {"raise": r[1:]}
    img, eff = r[1]
    g = img[0].mean(0).numpy()
    rows = np.nonzero(g.max(axis=1) > 0)[0]
    cols = np.nonzero(g.max(axis=0) > 0)[0]
    return lines, {"shape": list(img.shape[-2:]), "eff": float(eff), "dtype": str(img.dtype),
                   "th": int(rows.max()) + 1 if len(rows) else 0, "tw": int(cols.max()) + 1 if len(cols) else 0,
                   "th0": int(rows.min()) if len(rows) else 0, "tw0": int(cols.min()) if len(cols) else 0,
                   "_img": g}


def judge_sm(chk, c, obs, outs):
    if "raise" in obs:
        chk.disagree("apply_sizematcher raised where the model does not", c, obs["raise"], outs[0])
        return False
    t = outs[0].split()
    th, tw, en, ed, applied = int(t[1]), int(t[2]), int(t[3]), int(t[4]), int(t[5])
    oh, ow = int(t[6]), int(t[7])
    m1, m2 = Fraction(int(t[8]), int(t[9])), Fraction(int(t[10]), int(t[11]))
    ok = True
    if obs["shape"] != [oh, ow]:
        chk.disagree("apply_sizematcher output size == model", c, obs["shape"], [oh, ow])
        ok = False
    if not close(obs["eff"], float(Fraction(en, ed)), 1e-9):
        chk.disagree("apply_sizematcher eff_scale == model", c, obs["eff"], f"{en}/{ed}")
        ok = False
    if applied and min(m1, m2) < Fraction(1, 10 ** 6) and (obs["th"], obs["tw"]) != (th, tw) \
            and abs(obs["th"] - th) <= 1 and abs(obs["tw"] - tw) <= 1:
        chk.knife_edges += 1   # exact tie n/d = k + ½ evaluated in doubles
        STATS["knife_size_cases"] += 1
    elif (obs["th"], obs["tw"]) != (th, tw) or obs["th0"] != 0 or obs["tw0"] != 0:
        chk.disagree("apply_sizematcher resize target / pad location == model (content at top-left, pad bottom/right)",
                     c, [obs["th0"], obs["tw0"], obs["th"], obs["tw"]], [0, 0, th, tw])
        ok = False
    # oracle on sizes (independent): exactly the requested size
    want = [c["mh"] or c["h"], c["mw"] or c["w"]]
    if obs["shape"] != want:
        chk.fail(f"C04 size matcher: output {obs['shape']} is not the requested {want}", c, obs["shape"])
        ok = False
    mc = parse_chain(outs[1])
    applied_f, eff, inexact = sm_facts(c["h"], c["w"], c["mh"], c["mw"])
    if sm_tie(c["h"], c["w"], c["mh"], c["mw"]) and (obs["th"], obs["tw"]) != (th, tw):
        return ok   # the code rounded the tie the other way: the model's content map is for the other target
    kps = [(x * obs["eff"], y * obs["eff"]) for x, y in c["pts"]]   # what every caller does with eff_scale
    ok &= compare_points(chk, c, "apply_sizematcher", obs["_img"], mc["pts"], kps, c["sigma"] * float(eff),
                         signatures(eff, (c["w"] * eff).denominator != 1, (c["h"] * eff).denominator != 1), chk.hist)
    return ok


# ---- resizer (functional) ---------------------------------------------------
def exec_rs(c):
    from sleap_nn.data.resizing import apply_resizer
    arr = make_marker(c["h"], c["w"], c["pts"], c["sigma"], c["c"])
    sn, sd = c["scale"]
    s = sn / sd
    inst = torch.tensor([[list(p) for p in c["pts"]]], dtype=torch.float32).reshape(1, 1, -1, 2)
    r = call(apply_resizer, to_float_img(arr), inst, s)
    lines = [chain_line(c["h"], c["w"], [("rs", sn, sd)], c["pts"])]
    if r[0] != "ok":
        return lines, {"raise": r[1:]}
    img, kp = r[1]
    return lines, {"shape": list(img.shape[-2:]), "kps": t2l(kp), "_img": img[0].mean(0).numpy()}


def judge_rs(chk, c, obs, outs):
    if "raise" in obs:
        chk.disagree("apply_resizer raised where the model does not", c, obs["raise"], outs[0])
        return False
    mc = parse_chain(outs[0])
    sn, sd = c["scale"]
    s = Fraction(sn, sd)
    ok = True
    exact_h, exact_w = (c["h"] * s).denominator == 1, (c["w"] * s).denominator == 1
    if obs["shape"] != [mc["H"], mc["W"]]:
        if c.get("decimal") and (exact_h or exact_w):
            chk.knife_edges += 1   # n·s integral for a decimal s: int(n * s) in doubles may land either side
            STATS["knife_size_cases"] += 1
            return True
        chk.disagree("apply_resizer output size == model (int(n·s))", c, obs["shape"], [mc["H"], mc["W"]])
        ok = False
    want = [int(math.floor(c["h"] * s)), int(math.floor(c["w"] * s))] if s != 1 else [c["h"], c["w"]]
    if obs["shape"] != want:
        chk.fail(f"C04 resizer: output {obs['shape']} is not ⌊size·scale⌋ = {want}", c, obs["shape"])
        ok = False
    ok &= compare_points(chk, c, "apply_resizer", obs["_img"], mc["pts"], [tuple(p) for p in obs["kps"]],
                         c["sigma"] * float(s), signatures(s, not exact_w, not exact_h), chk.hist)
    return ok


# ---- crops (functional) -----------------------------------------------------
def exec_crop(c):
    from sleap_nn.data.instance_cropping import generate_crops, make_centered_bboxes
    arr = make_marker(c["h"], c["w"], c["pts"], c["sigma"], c["c"])
    inst = torch.tensor([list(p) for p in c["pts"]], dtype=torch.float32)
    cen = torch.tensor(list(c["centroid"]), dtype=torch.float32)
    r = call(generate_crops, to_float_img(arr), inst, cen, (c["bh"], c["bw"]))
    lines = [f"bbox {fr_s(c['centroid'][0])} {fr_s(c['centroid'][1])} {c['bh']} {c['bw']}",
             chain_line(c["h"], c["w"], [("crop", fr_s(c["centroid"][0]), fr_s(c["centroid"][1]), c["bh"], c["bw"])], c["pts"])]
    if r[0] != "ok":
        return lines, {"raise": r[1:]}
    s = r[1]
    return lines, {"shape": list(s["instance_image"].shape[-2:]), "bbox": t2l(s["instance_bbox"]),
                   "kps": t2l(s["instance"]), "centroid": t2l(s["centroid"])[0],
                   "_img": s["instance_image"][0].mean(0).numpy()}


def judge_crop(chk, c, obs, outs):
    if "raise" in obs:
        chk.disagree("generate_crops raised where the model does not", c, obs["raise"], outs[0])
        return False
    ok = True
    bb = [float(unrat(x)) for x in outs[0].split()[1:]]
    mb = [[bb[0], bb[1]], [bb[2], bb[3]], [bb[4], bb[5]], [bb[6], bb[7]]]
    if not all(close(a, b) for pa, pb in zip(obs["bbox"], mb) for a, b in zip(pa, pb)):
        chk.disagree("make_centered_bboxes == Geometry.centeredBBox", c, obs["bbox"], mb)
        ok = False
    mc = parse_chain(outs[1])
    if obs["shape"] != [c["bh"], c["bw"]]:
        chk.fail(f"C04 crop: size {obs['shape']} is not the requested {[c['bh'], c['bw']]}", c, obs["shape"])
        ok = False
    if obs["shape"] != [mc["H"], mc["W"]]:
        chk.disagree("generate_crops size == model", c, obs["shape"], [mc["H"], mc["W"]])
        ok = False
    if not (close(obs["centroid"][0], mc["centroid"][0]) and close(obs["centroid"][1], mc["centroid"][1])):
        chk.disagree("generate_crops centroid == model ((bw-1)/2, (bh-1)/2)", c, obs["centroid"], mc["centroid"])
        ok = False
    ok &= compare_points(chk, c, "generate_crops", obs["_img"], mc["pts"], [tuple(p) for p in obs["kps"]],
                         c["sigma"], signatures(Fraction(1), False, False), chk.hist,
                         src=(c["h"], c["w"], c["pts"], c["sigma"]))
    return ok


# ---- find_instance_crop_size ---------------------------------------------------
def exec_cropsize(c):
    from sleap_nn.data.instance_cropping import find_instance_crop_size
    import warnings
    frames = [{"h": 8, "w": 8, "c": 1, "sigma": 1.0, "insts": fr} for fr in c["frames"]]
    labels = build_labels(frames)
    with warnings.catch_warnings():
        warnings.simplefilter("ignore")
        r = call(find_instance_crop_size, labels, c["padding"], c["stride"], c["scaling"][0] / c["scaling"][1], c["min_crop"])
    # sleap-io derives visibility from x alone: Instance.numpy() gives (NaN, NaN) for a point whose x
    # is NaN and keeps (x, NaN) as it is — that is what find_instance_crop_size receives
    insts = [[(None, None) if x is None else (x, y) for x, y in inst] for fr in c["frames"] for inst in fr]
    toks = ["cropsize", str(c["padding"]), str(c["stride"]), str(-1 if c["min_crop"] is None else c["min_crop"]),
            f"{c['scaling'][0]}/{c['scaling'][1]}", str(len(insts))]
    for inst in insts:
        toks.append(str(len(inst)))
        for x, y in inst:
            toks += ["nan" if x is None else fr_s(x), "nan" if y is None else fr_s(y)]
    return [" ".join(toks)], {"size": int(r[1]) if r[0] == "ok" else "raise", "type": type(r[1]).__name__}


def judge_cropsize(chk, c, obs, outs):
    m = int(outs[0].split()[1])
    ok = True
    if obs["size"] != m:
        chk.disagree("find_instance_crop_size == Geometry.findCropSize", c, obs["size"], m)
        ok = False
    if obs["size"] == "raise":
        chk.fail("C04 find_instance_crop_size raised", c, obs)
        return False
    # oracle: multiple of the stride, ≥ min crop, covers every instance (+ padding) unless the user fixed it
    s, sc = c["stride"], c["scaling"][0] / c["scaling"][1]
    mc = c["min_crop"] or 0
    why = None
    fixed = mc > 0 and mc % s == 0
    if obs["size"] % s:
        why = f"{obs['size']} is not a multiple of the stride {s}"
    elif fixed and obs["size"] != mc:
        why = f"user crop size {mc} not returned"
    elif not fixed:
        insts = [inst for fr in c["frames"] for inst in fr]
        for inst in insts:
            for ax in (0, 1):
                v = [p[ax] * sc for p in inst if p[0] is not None and p[ax] is not None]   # x NaN ⇒ point missing (sleap-io)
                if v and max(v) - min(v) + c["padding"] > obs["size"] + 1e-6:
                    why = f"crop size {obs['size']} does not cover an instance of extent {max(v) - min(v)} + padding {c['padding']}"
        # labels without any instance are outside C04's quantifier (assumption; Props `cropsize_empty`,
        # `cropsize_empty_below_min`): the code then ignores min_crop_size — compared with the model only
        if insts and obs["size"] < mc:
            why = f"crop size {obs['size']} below the requested minimum {mc}"
        if not insts:
            STATS["cropsize_empty_labels"] = STATS.get("cropsize_empty_labels", 0) + 1
    if why:
        chk.fail("C04 crop size: " + why, c, obs)
        ok = False
    return ok


# ---- augmentation (functional) -----------------------------------------------
def exec_aug(c):
    import sleap_nn.data.augmentation as aug
    arr = make_marker(c["h"], c["w"], c["pts"], c["sigma"], c["c"])
    inst = torch.tensor([list(p) for p in c["pts"]], dtype=torch.float32).reshape(1, 1, -1, 2)
    if c.get("nan_last"):
        inst[0, 0, -1, :] = float("nan")
    img = to_float_img(arr)
    torch.manual_seed(c["seed"])
    Rec.log.clear()
    fn = aug.apply_intensity_augmentation if c["mode"] == "int" else aug.apply_geometric_augmentation
    r = call(fn, img, inst.clone(), **c["params"])
    if r[0] != "ok":
        return [chain_line(c["h"], c["w"], [("int",)], c["pts"])], {"raise": r[1:]}
    o, k = r[1]
    mats = [m for names, m in Rec.log if m is not None and "RandomAffine" in names]
    ops = [("int",)] if c["mode"] == "int" or not mats else [("auga" if Rec.align else "aug", *[fr_s(v) for v in aff_of(mats[-1])])]
    obs = {"shape": list(o.shape[-2:]), "kps": t2l(k), "bit_identical": bool(torch.equal(torch.nan_to_num(k, nan=-7.0), torch.nan_to_num(inst, nan=-7.0))),
           "nan_pattern_same": bool(torch.equal(torch.isnan(k), torch.isnan(inst))),
           "calls": len(Rec.log), "det": smax(mats[-1]) ** 2 if mats else 1.0, "align": Rec.align, "affine": bool(mats),
           "_img": o[0].mean(0).numpy()}
    return [chain_line(c["h"], c["w"], ops, c["pts"])], obs


def judge_aug(chk, c, obs, outs):
    if "raise" in obs:
        chk.disagree("augmentation raised where the model does not", c, obs["raise"], outs[0])
        return False
    mc = parse_chain(outs[0])
    ok = True
    if obs["shape"] != [c["h"], c["w"]]:
        chk.fail(f"C04 augmentation changed the image size to {obs['shape']}", c, obs["shape"])
        ok = False
    if obs["calls"] != 1:
        chk.disagree("one AugmentationSequential call for image and keypoints", c, obs["calls"], 1)
        ok = False
    if not obs["nan_pattern_same"]:
        chk.fail("C04 augmentation changed which keypoints are missing", c, obs["kps"])
        ok = False
    erase = c["mode"] == "geo" and c["params"].get("erase_p", 0) > 0
    if (c["mode"] == "int" or c["params"].get("affine_p", 0) == 0) and not obs["bit_identical"]:
        chk.fail("C04 intensity-only / non-affine augmentation moved keypoints", c, obs["kps"])
        ok = False
    kps = [tuple(p) for p in obs["kps"]]
    # oracle (model-free): a geometric augmentation moves ALL keypoints by one affine map — with ≥ 4
    # points the least-squares affine fit input → output must leave no residual
    fin = [(p, q) for p, q in zip(c["pts"], kps) if q[0] is not None]
    if c["mode"] == "geo" and len(fin) >= 4:
        X = np.array([[p[0], p[1], 1.0] for p, _ in fin])
        Y = np.array([[q[0], q[1]] for _, q in fin])
        sol = np.linalg.lstsq(X, Y, rcond=None)[0]
        res = float(np.abs(X @ sol - Y).max())
        if res >= 0.5:
            chk.fail(f"C04 geometric augmentation: returned keypoints are not one affine image of the input keypoints "
                     f"(least-squares residual {res:.2f} px)", c, {"in": [list(p) for p, _ in fin], "out": [list(q) for _, q in fin]})
            ok = False
    sc = math.sqrt(obs["det"])
    noisy = c["mode"] == "int"
    ok &= compare_points(chk, c, "apply_%s_augmentation" % ("intensity" if noisy else "geometric"), obs["_img"],
                         mc["pts"], kps, c["sigma"] * sc, signatures(Fraction(1), False, False, warp=(c["mode"] == "geo" and not obs.get("align") and obs["affine"])), chk.hist,
                         skip_measure=erase)
    return ok


# ---- legacy IterDataPipes of the anchored files (Resizer → PadToStride → InstanceCropper, KorniaAugmenter) ----
def exec_pipe(c):
    from sleap_nn.data.resizing import Resizer, PadToStride
    from sleap_nn.data.instance_cropping import InstanceCropper
    from sleap_nn.data.augmentation import KorniaAugmenter
    arr = make_marker(c["h"], c["w"], [p for inst in c["insts"] for p in inst], c["sigma"], c["c"])
    inst = torch.tensor([[list(p) for p in i] for i in c["insts"]], dtype=torch.float32)[None]   # (1, n, nodes, 2)
    ex = {"image": to_float_img(arr), "instances": inst, "num_instances": len(c["insts"])}
    sn, sd = c["scale"]
    Rec.log.clear()
    torch.manual_seed(c["seed"])

    def build():
        dp = PadToStride(Resizer([ex], scale=sn / sd), max_stride=c["stride"])
        if c["geo"]:
            dp = KorniaAugmenter(dp, affine_p=1.0, **c["geo"])
        if c["crop"]:
            from sleap_nn.data.instance_centroids import InstanceCentroidFinder
            dp = InstanceCropper(InstanceCentroidFinder(dp, anchor_ind=0), tuple(c["crop"]))
        out = []
        for e in dp:
            out.append({k: (v.clone() if hasattr(v, "clone") else v) for k, v in e.items()})
        return out
    r = call(build)
    if r[0] != "ok":
        return [], {"raise": r[1:]}
    mats = [m for names, m in Rec.log if m is not None and "RandomAffine" in names]
    base = [("rs", sn, sd), ("pad", c["stride"])]
    if c["geo"] and mats:
        base.append(("auga" if Rec.align else "aug", *[fr_s(v) for v in aff_of(mats[-1])]))
    lines, items = [], []
    allp = [p for i in c["insts"] for p in i]
    for j, e in enumerate(r[1]):
        if c["crop"]:
            # the cropper centres on the (resized, augmented) centroid = keypoint image of node 0 of instance j
            lines.append(chain_line(c["h"], c["w"], base, [c["insts"][j][0]]))      # where that centroid is
            items.append({"img": e["instance_image"][0].mean(0).numpy(), "kps": t2l(e["instance"]), "j": j,
                          "centroid": t2l(e["centroid"])[0], "shape": list(e["instance_image"].shape[-2:])})
        else:
            lines.append(chain_line(c["h"], c["w"], base, allp))
            items.append({"img": e["image"][0].mean(0).numpy(), "kps": t2l(e["instances"]), "j": None,
                          "shape": list(e["image"].shape[-2:])})
    return lines, {"items": items, "det": smax(mats[-1]) ** 2 if mats else 1.0, "align": Rec.align, "affine": bool(mats)}


def judge_pipe(chk, c, obs, outs):
    if "raise" in obs:
        chk.disagree("legacy datapipes raised where the model does not", c, obs["raise"], "ok")
        return False
    ok = True
    s = Fraction(*c["scale"])
    sc = math.sqrt(obs["det"])
    sigs = signatures(s, (c["w"] * s).denominator != 1, (c["h"] * s).denominator != 1, mix_axes=obs["affine"],
                      warp=obs["affine"] and not obs["align"])
    for it, out in zip(obs["items"], outs):
        mc = parse_chain(out)
        if it["j"] is None:
            if it["shape"] != [mc["H"], mc["W"]]:
                chk.disagree("Resizer → PadToStride output size == model", c, it["shape"], [mc["H"], mc["W"]])
                ok = False
            ok &= compare_points(chk, c, "legacy Resizer/PadToStride/KorniaAugmenter", it["img"], mc["pts"],
                                 [tuple(p) for p in it["kps"]], c["sigma"] * float(s) * sc, sigs, chk.hist)
        else:
            # crop about the centroid: content and keypoints minus the same top-left (oracle on the crop itself)
            bh, bw = c["crop"]
            if it["shape"] != [bh, bw]:
                chk.fail(f"C04 InstanceCropper: crop {it['shape']} is not the requested {[bh, bw]}", c, it["shape"])
                ok = False
            cen = mc["pts"][0]["kp"]
            tl = (cen[0] - bw / 2 + 0.5, cen[1] - bh / 2 + 0.5)
            if not (close(it["centroid"][0], (bw - 1) / 2) and close(it["centroid"][1], (bh - 1) / 2)):
                chk.fail(f"C04 InstanceCropper: centroid {it['centroid']} not at the crop centre", c, it["centroid"])
                ok = False
            want = (mc["pts"][0]["kp"][0] - tl[0], mc["pts"][0]["kp"][1] - tl[1])
            if not (close(it["kps"][0][0], want[0]) and close(it["kps"][0][1], want[1])):
                chk.disagree("InstanceCropper keypoints == model (minus the bbox top-left)", c, it["kps"][0], list(want))
                ok = False
            pts = [{"content": (mc["pts"][0]["content"][0] - tl[0], mc["pts"][0]["content"][1] - tl[1]), "kp": want}]
            m = 3.0 * c["sigma"] * float(s) * sc + 1.5      # blob must be whole in the frame the crop is taken from
            qx, qy = mc["pts"][0]["content"]
            whole = m <= qx <= mc["W"] - 1 - m and m <= qy <= mc["H"] - 1 - m
            ok &= compare_points(chk, c, "legacy InstanceCropper", it["img"], pts, [tuple(it["kps"][0])],
                                 c["sigma"] * float(s) * sc, sigs, chk.hist, skip_measure=not whole)
    return ok


def gen_pipe(rng):
    for _ in range(30):
        h, w = rng.randrange(64, 140), rng.randrange(64, 140)
        sc = rng.choice([(1, 1), (1, 2), (3, 4), (5, 4), (3, 2)])
        if rng.random() < 0.7:
            h, w = h - h % sc[1], w - w % sc[1]
        elif sc[0] < sc[1]:
            continue
        s = Fraction(*sc)
        sigma = pick_sigma(s)
        pts = gen_points(rng, h, w, 2 * rng.choice([1, 2]), sigma, margin_sig=4)
        if len(pts) < 2:
            continue
        insts = [[pts[2 * i], pts[2 * i + 1]] for i in range(len(pts) // 2)]
        geo = None
        if rng.random() < 0.4:
            geo = {"rotation": rng.choice([0.0, 15.0, 45.0]), "scale": rng.choice([None, (0.9, 1.1)]),
                   "translate_width": rng.choice([0.0, 0.05]), "translate_height": rng.choice([0.0, 0.05])}
        return {"kind": "pipe", "h": h, "w": w, "c": rng.choice([1, 3]), "sigma": sigma, "insts": insts, "scale": list(sc),
                "stride": rng.choice([1, 8, 16]), "crop": rng.choice([None, [32, 32], [24, 40]]), "geo": geo,
                "seed": rng.randrange(2 ** 31)}
    return None


# ---- the four Dataset classes ---------------------------------------------------
def ds_config(c):
    from omegaconf import OmegaConf
    augc = {}
    if c.get("intensity"):
        augc["intensity"] = c["intensity"]
    if c.get("geometric"):
        augc["geometric"] = c["geometric"]
    pre = {"is_rgb": c["rgb"]}
    cfg = c.get("cfg_max_hw") or [None, None]
    if c.get("cfg_max_hw") is not None:     # keys present (possibly None) — what a config file gives
        pre["max_height"], pre["max_width"] = cfg[0], cfg[1]
    dc = OmegaConf.create({"user_instances_only": not c.get("all_instances", False), "preprocessing": pre,
                           "augmentation_config": augc if augc else None})
    hc = OmegaConf.create({"sigma": 1.5, "output_stride": 2, "anchor_part": c.get("anchor")})
    pc = OmegaConf.create({"sigma": 4, "output_stride": 4})
    return dc, hc, pc


def eff_hw(c):
    """max_hw the dataset must use: config max_height/max_width, when set, override the argument
    per component (repo commit 3fdd300)."""
    cfg = c.get("cfg_max_hw") or [None, None]
    return [cfg[0] if cfg[0] is not None else c["max_hw"][0], cfg[1] if cfg[1] is not None else c["max_hw"][1]]


def bbox_mid(inst):
    xs = [p[0] for p in inst if p[0] is not None and p[1] is not None]
    ys = [p[1] for p in inst if p[0] is not None and p[1] is not None]
    return ((max(xs) + min(xs)) / 2, (max(ys) + min(ys)) / 2)


def exec_ds(c):
    """Builds the dataset once and reads the index HISTORY c["reads"] (repeats, interleaving): one
    driver line and one observation per read."""
    import shutil
    import tempfile
    from sleap_nn.data import custom_datasets as cd
    labels = build_labels(c["frames"])
    dc, hc, pc = ds_config(c)
    sn, sd = c["scale"]
    kw = dict(max_stride=c["stride"], scale=sn / sd, apply_aug=bool(c.get("intensity") or c.get("geometric")),
              max_hw=(c["max_hw"][0], c["max_hw"][1]))
    tmp = None
    if c.get("np_chunks"):
        tmp = tempfile.mkdtemp(prefix="c04np_")
        kw.update(np_chunks=True, np_chunks_path=tmp)
    try:
        return _exec_ds(c, cd, labels, dc, hc, pc, kw)
    finally:
        if tmp:
            shutil.rmtree(tmp, ignore_errors=True)


def _exec_ds(c, cd, labels, dc, hc, pc, kw):
    cls = c["cls"]
    sn, sd = c["scale"]
    mhw = eff_hw(c)
    r = call(lambda: {"BottomUp": lambda: cd.BottomUpDataset(labels, dc, hc, pc, **kw),
                      "Single": lambda: cd.SingleInstanceDataset(labels, dc, hc, **kw),
                      "Centroid": lambda: cd.CentroidDataset(labels, dc, hc, **kw),
                      "Centered": lambda: cd.CenteredInstanceDataset(labels, dc, tuple(c["crop_hw"]), hc, **kw)}[cls]())
    if r[0] != "ok":
        return [], {"raise": r[1:]}
    ds = r[1]
    if c.get("np_chunks") and c.get("existing"):
        # a second dataset object that only reads the chunks the first one wrote
        kw2 = dict(kw, use_existing_chunks=True)
        r = call(lambda: {"BottomUp": lambda: cd.BottomUpDataset(labels, dc, hc, pc, **kw2),
                          "Single": lambda: cd.SingleInstanceDataset(labels, dc, hc, **kw2),
                          "Centroid": lambda: cd.CentroidDataset(labels, dc, hc, **kw2),
                          "Centered": lambda: cd.CenteredInstanceDataset(labels, dc, tuple(c["crop_hw"]), hc, **kw2)}[cls]())
        if r[0] != "ok":
            return [], {"raise": r[1:]}
        cache_of, ds = ds, r[1]
    else:
        cache_of = ds
    lines, items = [], []
    # sample index → (frame, instance) in the order the class enumerates
    if cls == "Centered":
        index = [(fi, ii) for fi, fr in enumerate(c["frames"]) for ii in range(len(fr["insts"]))]
    else:
        index = [(fi, None) for fi in range(len(c["frames"]))]
    if len(ds) != len(index):
        return [], {"raise": ("len", f"{len(ds)} samples, expected {len(index)}")}
    img_key = "instance_image" if cls == "Centered" else "image"
    kp_key = {"Centered": "instance", "Centroid": "centroids"}.get(cls, "instances")
    first = {}   # idx → (image, keypoints) of its first read
    for k, idx in enumerate(c["reads"]):
        fi, ii = index[idx]
        fr = c["frames"][fi]
        Rec.log.clear()
        torch.manual_seed(c["seed"] + k)
        g = call(ds.__getitem__, idx)
        if g[0] != "ok":
            items.append({"raise": g[1:], "read": k, "idx": idx})
            lines.append("oc 1")
            continue
        s = g[1]
        img = s[img_key]
        if c.get("np_chunks"):
            z = np.load(cache_of.cache[idx])
            pre_shape = list(z[img_key].shape[:2])
        else:
            pre_shape = list(cache_of.cache[idx][img_key].shape[-2:])
        mats = [m for names, m in Rec.log if m is not None and "RandomAffine" in names]
        ops = []
        if mhw[0] is not None or mhw[1] is not None:
            ops.append(("sm", mhw[0] or 0, mhw[1] or 0))
        ops.append(("rs", sn, sd))
        all_pts = [p for inst in fr["insts"] for p in inst if p[0] is not None and p[1] is not None]
        if cls == "Centered":
            inst = fr["insts"][ii]
            a = c.get("anchor")
            c0 = inst[a] if a is not None and inst[a][0] is not None else bbox_mid(inst)
            oc = [OC_TABLE[v] for v in c["crop_hw"]]     # the MODEL's ⌊c·√2⌋ (driver `oc`), compared below with the cached crop
            ops.append(("crop", fr_s(c0[0]), fr_s(c0[1]), oc[0], oc[1]))
            pts = [p for p in inst]
            kp_t = s["instance"]
        else:
            ops.append(("pad", c["stride"]))
            if cls == "Centroid":
                a = c.get("anchor")
                pts = [inst[a] if a is not None and inst[a][0] is not None else bbox_mid(inst) for inst in fr["insts"]]
                kp_t = s["centroids"][:, :len(pts)]
            else:
                pts = [p for inst in fr["insts"] for p in inst]
                kp_t = s["instances"][:, :len(fr["insts"])]
        n_pre = len(ops)
        if c.get("intensity"):
            ops.append(("int",))
        if c.get("geometric"):
            if mats:
                ops.append(("auga" if Rec.align else "aug", *[fr_s(v) for v in aff_of(mats[-1])]))
            else:
                ops.append(("int",))
        if cls == "Centered":
            ops.append(("recrop", c["crop_hw"][0], c["crop_hw"][1]))
            ops.append(("pad", c["stride"]))
        vis = [p for p in pts if p[0] is not None and p[1] is not None]
        nb = [p for p in all_pts if p not in vis]      # other blobs in the frame (measurement neighbours)
        lines.append(chain_line(fr["h"], fr["w"], ops, vis + nb))
        # history oracle (model-free): without augmentation a re-read returns what the first read returned
        same = None
        if not (c.get("intensity") or c.get("geometric")):
            cur = (img.clone(), s[kp_key].clone())
            if idx in first:
                same = bool(torch.equal(cur[0], first[idx][0]) and
                            torch.equal(torch.nan_to_num(cur[1], nan=-7.0), torch.nan_to_num(first[idx][1], nan=-7.0)))
            else:
                first[idx] = cur
        items.append({"shape": list(img.shape[-2:]), "channels": int(img.shape[-3]), "pre_shape": pre_shape,
                      "kps": t2l(kp_t), "missing": [p[0] is None or p[1] is None for p in pts], "n_pre": n_pre,
                      "n_vis": len(vis), "same_as_first": same,
                      "centroid": t2l(s["centroid"])[0] if cls == "Centered" else None,
                      "bbox": t2l(s["instance_bbox"]) if cls == "Centered" else None,
                      "det": smax(mats[-1]) ** 2 if mats else 1.0, "affine": bool(mats), "align": Rec.align,
                      "orig_size": [float(v) for v in s["orig_size"].flatten().tolist()],
                      "stale": stale_keys(c, cls, s), "fi": fi, "ii": ii, "read": k, "idx": idx,
                      "_img": img[0].mean(0).numpy()})
    if cls == "Centered":
        # bbox of the re-crop: make_centered_bboxes about the over-crop centre, in over-crop coordinates
        oc = [OC_TABLE[v] for v in c["crop_hw"]]
        lines.append(f"bbox {fr_s(Fraction(oc[1] - 1, 2))} {fr_s(Fraction(oc[0] - 1, 2))} {c['crop_hw'][0]} {c['crop_hw'][1]}")
    return lines, {"items": items}


def stale_keys(c, cls, s):
    """Model-free consistency of the keys of one sample: the centroid must still be the anchor keypoint
    it was computed from (both are keypoints of the same image).  Returns the largest distance in px."""
    a = c.get("anchor")
    if a is None:
        return None
    if cls == "Centroid":
        d = (s["centroids"][0, :, :] - s["instances"][0, :s["centroids"].shape[1], a, :]).abs()
    elif cls == "Centered":
        d = (s["centroid"][0] - s["instance"][0, a]).abs()
    else:
        return None
    d = d[~torch.isnan(d)]
    return float(d.max()) if d.numel() else None


def judge_ds(chk, c, obs, outs):
    if "raise" in obs:
        chk.disagree(f"{c['cls']}Dataset raised where the model does not", c, obs["raise"], "ok")
        return False
    ok = True
    sn, sd = c["scale"]
    s = Fraction(sn, sd)
    geo = bool(c.get("geometric"))
    noisy = bool(c.get("intensity"))
    mhw = eff_hw(c)
    model_bbox = None
    if c["cls"] == "Centered":
        bb = [float(unrat(x)) for x in outs[-1].split()[1:]]
        model_bbox = [[bb[0], bb[1]], [bb[2], bb[3]], [bb[4], bb[5]], [bb[6], bb[7]]]
    for it, out in zip(obs["items"], outs):
        if "raise" in it:
            chk.disagree(f"{c['cls']}Dataset.__getitem__ raised where the model does not",
                         {**c, "reads": c["reads"][:it["read"] + 1]}, it["raise"], "ok")
            ok = False
            continue
        fr = c["frames"][it["fi"]]
        # the concrete read sequence up to and including this read
        sub = {**c, "reads": c["reads"][:it["read"] + 1], "read_no": it["read"], "sample": [it["fi"], it["ii"]]}
        tag = "first_read" if it["idx"] not in c["reads"][:it["read"]] else "re_read"
        STATS[tag] = STATS.get(tag, 0) + 1
        if it["same_as_first"] is False:
            chk.fail(f"C04 {c['cls']}Dataset: read #{it['read']} of index {it['idx']} (history {sub['reads']}) differs from its first read "
                     "although augmentation is off", sub, {"keypoints_now": it["kps"], "centroid_now": it["centroid"]})
            ok = False
        if it["stale"] is not None and it["stale"] >= ORACLE_PX:
            # signature: the sample went through a geometric augmentation (only then can a key that is
            # not handed to the augmenter fall behind); without one this is an ordinary violation
            chk.fail(f"C04 {c['cls']}Dataset: the centroid is {it['stale']:.1f} px away from the anchor keypoint it was computed from "
                     "(a key of the sample was not transformed with the image)", sub, {"kps": it["kps"], "centroid": it["centroid"]},
                     ["unaugmented_key"] if it["affine"] else [])
            ok = False
        mc = parse_chain(out)
        if mc is None:
            chk.disagree("driver rejected the chain", sub, None, out)
            ok = False
            continue
        applied, eff, inexact_sm = sm_facts(fr["h"], fr["w"], mhw[0], mhw[1])
        h1 = mhw[0] if (applied and mhw[0]) else fr["h"]
        w1 = mhw[1] if (applied and mhw[1]) else fr["w"]
        # knife-edges of the SIZE arithmetic (n·s integral for a decimal s: int(n * s) in doubles may land
        # either side; round() tie in the size matcher): only the size and content comparisons are
        # skipped — keypoints, NaN pattern, model-free size oracles and the re-read oracle still run
        size_knife = bool(c.get("decimal") and ((h1 * s).denominator == 1 or (w1 * s).denominator == 1)) \
            or sm_tie(fr["h"], fr["w"], mhw[0], mhw[1])
        if size_knife:
            chk.knife_edges += 1
            STATS["knife_reads_size_compare_skipped"] += 1
        # exact sizes
        if size_knife:
            pass
        elif it["shape"] != [mc["H"], mc["W"]]:
            chk.disagree(f"{c['cls']}Dataset output image size == model", sub, it["shape"], [mc["H"], mc["W"]])
            ok = False
        if not size_knife and it["pre_shape"] != list(mc["sizes"][it["n_pre"] - 1]):
            chk.disagree(f"{c['cls']}Dataset cached (pre-augmentation) image size == model", sub, it["pre_shape"],
                         list(mc["sizes"][it["n_pre"] - 1]))
            ok = False
        if it["channels"] != (3 if c["rgb"] else 1):
            chk.fail(f"C04 {c['cls']}Dataset: {it['channels']} channels for is_rgb={c['rgb']}", sub, it["channels"])
            ok = False
        # oracle on sizes (model-free)
        H, W = it["shape"]
        st = c["stride"]
        if H % st or W % st:
            chk.fail(f"C04 {c['cls']}Dataset: output {H}x{W} is not a multiple of max_stride {st}", sub, it["shape"])
            ok = False
        if c["cls"] == "Centered":
            ch, cw = c["crop_hw"]
            if not (ch <= H < ch + st and cw <= W < cw + st):
                chk.fail(f"C04 CenteredInstanceDataset: output {H}x{W} is not the crop size {ch}x{cw} padded to the stride",
                         sub, it["shape"])
                ok = False
            want_c = [(cw - 1) / 2, (ch - 1) / 2]
            if not (close(it["centroid"][0], want_c[0]) and close(it["centroid"][1], want_c[1])):
                chk.fail(f"C04 CenteredInstanceDataset: centroid {it['centroid']} not at the crop centre {want_c}", sub, it["centroid"])
                ok = False
            if not all(close(a, b) for pa, pb in zip(it["bbox"], model_bbox) for a, b in zip(pa, pb)):
                chk.disagree("CenteredInstanceDataset instance_bbox == Geometry.centeredBBox about the over-crop centre",
                             sub, it["bbox"], model_bbox)
                ok = False
            if mc["centroid"] is None or not (close(it["centroid"][0], mc["centroid"][0]) and close(it["centroid"][1], mc["centroid"][1])):
                chk.disagree("CenteredInstanceDataset centroid == model", sub, it["centroid"], mc["centroid"])
                ok = False
        elif (mhw[0] is not None and mhw[1] is not None):
            eh, ew = int(math.floor(mhw[0] * s)) if s != 1 else mhw[0], \
                int(math.floor(mhw[1] * s)) if s != 1 else mhw[1]
            if not (eh <= H < eh + st and ew <= W < ew + st) and not c.get("decimal"):
                chk.fail(f"C04 {c['cls']}Dataset: output {H}x{W} is not max_hw·scale = {eh}x{ew} padded to the stride", sub, it["shape"])
                ok = False
        if it["orig_size"] != [float(fr["h"]), float(fr["w"])]:
            chk.fail(f"C04 {c['cls']}Dataset: orig_size {it['orig_size']} is not the frame size", sub, it["orig_size"])
            ok = False
        # missing keypoints stay missing, visible stay visible
        vis_kps, k = [], 0
        for miss, kp in zip(it["missing"], it["kps"]):
            if miss != (kp[0] is None or kp[1] is None):
                chk.fail(f"C04 {c['cls']}Dataset changed which keypoints are missing", sub, it["kps"])
                ok = False
            if not miss:
                vis_kps.append(tuple(kp))
        # identity geometry (no size matching, scale 1, no geometric augmentation; stride padding is
        # bottom/right): the returned keypoints must BE the labels (model-free, exact up to float32)
        if c["cls"] != "Centered" and not geo and s == 1 and not sm_facts(fr["h"], fr["w"], mhw[0], mhw[1])[0]:
            if c["cls"] == "Centroid":
                a_ = c.get("anchor")
                lab = [i_[a_] if a_ is not None and i_[a_][0] is not None else bbox_mid(i_) for i_ in fr["insts"]]
            else:
                lab = [p_ for i_ in fr["insts"] for p_ in i_]
            lab = [p_ for p_ in lab if p_[0] is not None and p_[1] is not None]
            for j_, (p_, q_) in enumerate(zip(lab, vis_kps)):
                d_ = max(abs(p_[0] - q_[0]), abs(p_[1] - q_[1]))
                if d_ > 0.01:
                    chk.fail(f"C04 {c['cls']}Dataset: no geometric step at all (frame {fr['h']}x{fr['w']}, scale 1, np_chunks={bool(c.get('np_chunks'))}) "
                             f"but keypoint {list(p_)} came back as {list(q_)} ({d_:.2f} px away; the image is unchanged)",
                             {**sub, "point": j_}, {"label": list(p_), "returned": list(q_)})
                    ok = False
        # pad location: bottom/right strips all-zero (no augmentation ⇒ nothing else writes there)
        if not geo and not noisy and not size_knife:
            ph, pw = mc["sizes"][-2] if c["cls"] == "Centered" else mc["sizes"][it["n_pre"] - 2]
            g = it["_img"]
            if g[ph:, :].any() or g[:, pw:].any():
                chk.fail(f"C04 {c['cls']}Dataset: stride padding is not an all-zero bottom/right strip", sub, [ph, pw])
                ok = False
            if c["cls"] != "Centered" and not sm_facts(fr["h"], fr["w"], mhw[0], mhw[1])[0] \
                    and not (g[:ph, :pw].max(axis=1) > 0).all():
                chk.fail(f"C04 {c['cls']}Dataset: zero rows inside the content area (padding not at the bottom/right)", sub, [ph, pw])
                ok = False
        inexact_x = (applied and (fr["w"] * eff).denominator != 1) or (w1 * s).denominator != 1
        inexact_y = (applied and (fr["h"] * eff).denominator != 1) or (h1 * s).denominator != 1
        f_total = eff * s
        sc = math.sqrt(it["det"])
        # no blob to measure when the content was (partly) erased or the centroid is a bbox midpoint
        no_blob = bool(geo and c["geometric"].get("erase_p", 0) > 0) or (c["cls"] == "Centroid" and c.get("anchor") is None) \
            or size_knife
        if c["cls"] == "Centered" and it["read"] == c["reads"].index(it["idx"]):
            a_ = c.get("anchor")
            inst_ = fr["insts"][it["ii"]]
            c0_ = inst_[a_] if a_ is not None and inst_[a_][0] is not None else bbox_mid(inst_)
            d_ = min(c0_[0], c0_[1], fr["w"] - 1 - c0_[0], fr["h"] - 1 - c0_[1]) * float(f_total)
            if d_ < min(c["crop_hw"]) / 2:
                STATS["border_hugging_centroids"] = STATS.get("border_hugging_centroids", 0) + 1
        ok &= compare_points(chk, sub, f"{c['cls']}Dataset", it["_img"], mc["pts"][:it["n_vis"]], vis_kps,
                             fr["sigma"] * float(f_total) * sc,
                             signatures(f_total, inexact_x, inexact_y, mix_axes=it["affine"],
                                        warp=it["affine"] and not it["align"]), chk.hist,
                             skip_measure=no_blob, area=tuple(mc["sizes"][-2]) if c["cls"] == "Centered" else None,
                             neighbours=[q["content"] for q in mc["pts"][it["n_vis"]:]])
    return ok


# =========================================================================== generators
DYADIC = [(1, 4), (3, 8), (1, 2), (5, 8), (3, 4), (1, 1), (1, 1), (5, 4), (3, 2), (2, 1)]
DECIMAL = [(3, 10), (7, 10), (3, 5), (9, 10), (6, 5)]


def pick_sigma(f_total):
    return min(6.0, max(1.6, 1.7 / float(f_total)))


def gen_pad(rng):
    s = rng.choice([1, 2, 4, 8, 16, 32, 64, 3, 5, 12])
    h = rng.choice([rng.randrange(1, 200), s * rng.randrange(1, 6), s * rng.randrange(1, 6) + rng.choice([1, s - 1 if s > 1 else 0])])
    w = rng.choice([rng.randrange(1, 200), s * rng.randrange(1, 6), s * rng.randrange(1, 6) + 1])
    return {"kind": "pad", "h": max(1, h), "w": max(1, w), "s": s, "c": rng.choice([1, 3])}


def gen_sm(rng, region):
    """region: 'main' (eff < 2 or exact targets), 'ge3' (excluded: up-scaling ≥ 3), 'round' (excluded: 2 ≤ eff < 3)"""
    for _ in range(100):
        h, w = rng.randrange(24, 120), rng.randrange(24, 120)
        if region == "ge3":
            f = Fraction(rng.choice([3, 3, 4, 7, 10, 13]), rng.choice([1, 1, 2, 3]))
            if f < 3:
                continue
            h, w = rng.randrange(16, 40), rng.randrange(16, 40)
        elif region == "round":
            f = Fraction(rng.randrange(32, 48), 16)
            h, w = rng.randrange(20, 60), rng.randrange(20, 60)
        else:
            f = rng.choice([Fraction(rng.randrange(4, 31), 16), Fraction(1, 2), Fraction(2), Fraction(3, 2), Fraction(1),
                            Fraction(rng.randrange(20, 100), 50)])
        bind_h = rng.random() < 0.5
        if bind_h:
            mh = int(round(h * f))
            mw = rng.choice([int(math.ceil(w * Fraction(mh, h))) + rng.randrange(0, 30), None])
        else:
            mw = int(round(w * f))
            mh = rng.choice([int(math.ceil(h * Fraction(mw, w))) + rng.randrange(0, 30), None])
        if rng.random() < 0.1:
            mh, mw = rng.choice([(h, w), (None, None), (h, None)])
        applied, eff, inexact = sm_facts(h, w, mh, mw)
        th, tw = h * eff, w * eff
        if min(th, tw) < 12 or max(mh or h, mw or w) > 420:
            continue
        if region == "ge3" and eff < 3:
            continue
        if region == "round" and not (2 <= eff < 3):
            continue
        if region == "main" and eff >= 2 and inexact:
            continue
        if region == "main" and eff >= 3:
            continue
        sigma = pick_sigma(eff)
        pts = gen_points(rng, h, w, rng.randrange(1, 4), sigma, margin_sig=rng.choice([3.0, 3.5, 5]))
        if not pts:
            continue
        return {"kind": "sm", "h": h, "w": w, "mh": mh, "mw": mw, "pts": pts, "sigma": sigma, "c": rng.choice([1, 1, 3]),
                "region": region}
    return None


def gen_rs(rng, region):
    for _ in range(100):
        h, w = rng.randrange(32, 140), rng.randrange(32, 140)
        decimal = False
        if region == "ge3":
            sc = rng.choice([(3, 1), (4, 1), (7, 2), (13, 4)])
            h, w = rng.randrange(16, 48), rng.randrange(16, 48)
        elif region == "trunc":
            sc = rng.choice(DECIMAL[:4] + [(3, 8), (5, 8), (3, 16)])
            decimal = sc in DECIMAL
            h, w = rng.randrange(60, 220), rng.randrange(60, 220)
        else:
            sc = rng.choice(DYADIC)
            if rng.random() < 0.7:   # exact targets
                h, w = h - h % sc[1], w - w % sc[1]
            elif sc[0] < sc[1]:
                continue             # truncated down-scaling is the 'trunc' region
        s = Fraction(*sc)
        if min(h, w) * s < 12 or max(h, w) * s > 420 or min(h, w) < 16:
            continue
        sigma = pick_sigma(s)
        pts = gen_points(rng, h, w, rng.randrange(1, 4), sigma, margin_sig=rng.choice([3.0, 3.5, 5]))
        if not pts:
            continue
        return {"kind": "rs", "h": h, "w": w, "scale": list(sc), "pts": pts, "sigma": sigma, "c": rng.choice([1, 1, 3]),
                "decimal": decimal, "region": region}
    return None


def gen_crop(rng):
    h, w = rng.randrange(40, 140), rng.randrange(40, 140)
    sigma = 1.6
    pts = gen_points(rng, h, w, rng.randrange(1, 4), sigma, margin_sig=rng.choice([0.5, 2, 3.5]))
    if not pts:
        return None
    bh, bw = rng.choice([16, 24, 32, 33, 48, 21, 64]), rng.choice([16, 24, 32, 33, 48, 21, 64])
    mode = rng.random()
    if mode < 0.6:
        cen = pts[0]
    elif mode < 0.7:   # on / near a border
        cen = (rng.choice([0, 1.5, w - 1, w - 2.25]), rng.choice([0, 2.5, h - 1, h - 3.75]))
    elif mode < 0.8:   # outside the frame
        cen = (rng.choice([-5.5, -0.75, w + 3.25, w - 0.5, pts[0][0]]), rng.choice([-4.25, h + 6.5, h, pts[0][1]]))
    else:
        cen = (rng.randrange(0, 16 * w) / 16, rng.randrange(0, 16 * h) / 16)
    return {"kind": "crop", "h": h, "w": w, "pts": pts, "sigma": sigma, "centroid": list(cen), "bh": bh, "bw": bw,
            "c": rng.choice([1, 1, 3])}


def gen_cropsize(rng):
    frames = []
    empty = rng.random() < 0.12          # labels without any instance (only empty frames)
    for _ in range(rng.randrange(1, 4)):
        fr = []
        for _ in range(0 if empty else rng.choice([0, 1, 1, 2, 3])):
            inst = []
            for _ in range(2):
                r = rng.random()
                x, y = rng.randrange(0, 16 * 200) / 16, rng.randrange(0, 16 * 200) / 16
                if r < 0.12:
                    inst.append((None, None))
                elif r < 0.18:
                    inst.append((None, y) if rng.random() < 0.5 else (x, None))   # half-NaN point
                else:
                    inst.append((x, y))
            fr.append(inst)              # all-NaN instances are kept (the code sees extent 0)
        frames.append(fr)
    stride = rng.choice([1, 2, 4, 8, 16, 32, 6])
    return {"kind": "cropsize", "frames": frames, "padding": rng.choice([0, 0, 5, 16, 33]), "stride": stride,
            "scaling": list(rng.choice([(1, 1), (1, 2), (3, 4), (2, 1), (5, 4)])),
            "min_crop": rng.choice([None, None, 0, stride * rng.randrange(1, 20), stride * rng.randrange(1, 20) + 1, 100, 160, 7])}


INT_PARAMS = [
    {"uniform_noise_min": 0.0, "uniform_noise_max": 0.04, "uniform_noise_p": 1.0},
    {"gaussian_noise_mean": 0.02, "gaussian_noise_std": 0.004, "gaussian_noise_p": 1.0},
    {"contrast_min": 0.5, "contrast_max": 2.0, "contrast_p": 1.0},
    {"brightness": [0.8, 1.2], "brightness_p": 1.0},
    {"uniform_noise_p": 1.0, "gaussian_noise_p": 1.0, "contrast_p": 1.0, "brightness": [0.9, 1.1], "brightness_p": 1.0},
    {"contrast_p": 0.0},
]


def gen_geo_params(rng, mild=False):
    p = {"rotation": rng.choice([0.0, 15.0, 15.0, 45.0, 90.0, 180.0, 180.0] if not mild else [0.0, 15.0, 30.0]),
         "scale": rng.choice([None, [0.9, 1.1], [0.75, 1.3], [0.8, 0.8, 1.2, 1.2], [0.7, 1.5]] if not mild else [None, [0.9, 1.1]]),
         "translate_width": rng.choice([0.0, 0.02, 0.1, 0.2]), "translate_height": rng.choice([0.0, 0.02, 0.1, 0.2]),
         "affine_p": 1.0}
    r = rng.random()
    if r < 0.1:
        p["affine_p"] = 0.0
    elif r < 0.2:
        p["erase_p"] = 1.0
        p["erase_scale_min"], p["erase_scale_max"] = 0.001, 0.02
    elif r < 0.27:
        p["mixup_p"] = 1.0               # batch of one: RandomMixUpV2 mixes the image with itself
        p["mixup_lambda"] = [0.2, 0.4]
    return p


ELONGATED = [(48, 480), (40, 200), (32, 256), (300, 60), (64, 640), (480, 48), (56, 336)]


def gen_aug(rng, mode):
    h, w = rng.choice([(64, 64), (96, 96), (rng.randrange(64, 160), rng.randrange(64, 160)), (80, 200), (128, 128)])
    if mode == "geo" and rng.random() < 0.35:
        h, w = rng.choice(ELONGATED)     # aspect up to 1:10 (kornia's warp is S·A·S⁻¹ there)
    sigma = (2.2 if min(h, w) >= 56 else 1.7) if mode == "geo" else 1.8
    pts = gen_points(rng, h, w, rng.randrange(1, 4) if mode == "int" else rng.choice([1, 2, 3, 4, 5, 6]), sigma, margin_sig=4)
    if not pts:
        return None
    params = dict(rng.choice(INT_PARAMS)) if mode == "int" else gen_geo_params(rng)
    return {"kind": "aug", "mode": mode, "h": h, "w": w, "pts": pts, "sigma": sigma, "c": rng.choice([1, 1, 3]),
            "params": params, "seed": rng.randrange(2 ** 31), "nan_last": len(pts) > 1 and rng.random() < 0.2}


WIDE = [(24, 2600), (24, 4200), (4300, 24), (32, 2700)]


def gen_ds_wide(rng, cls, np_chunks):
    """Frames with one long side (> 2048 px, beyond 4096 px) and keypoints at odd-integer / non-dyadic
    positions far out — where a storage format with fewer mantissa bits than float32 (np_chunks) would
    move keypoints by ≥ 1 px while the image stays put.  uint8, one thin frame: cheap."""
    h, w = rng.choice(WIDE)
    long_ = max(h, w)
    far = [v for v in (2563.0, 2051.3, 2565.0, 2307.0, 4101.25, 4102.0, 4099.0) if v < long_ - 12]
    a, b = rng.sample(far, 2)
    sh = min(h, w)
    ya, yb = sh / 2 - 0.5, sh / 2 + 0.25
    inst = [(a, ya), (b, yb)] if w > h else [(ya, a), (yb, b)]
    c = {"kind": "ds", "cls": cls, "frames": [{"h": h, "w": w, "c": 1, "sigma": 1.6, "insts": [inst]}],
         "max_hw": [None, None], "scale": [1, 1], "stride": rng.choice([1, 2, 8]), "rgb": False, "anchor": rng.choice([0, 1]),
         "seed": rng.randrange(2 ** 31), "decimal": False, "region": "wide", "np_chunks": np_chunks,
         "existing": np_chunks and rng.random() < 0.3, "all_instances": False, "reads": rng.choice([[0], [0, 0]])}
    if cls == "Centered":
        c["crop_hw"] = [16, 16]
    return c


def gen_ds(rng, cls, region="main"):
    for _ in range(60):
        nfr = rng.choice([1, 1, 2])
        decimal = False
        sc = rng.choice(DYADIC)
        sizes = [(rng.randrange(48, 150), rng.randrange(48, 150)) for _ in range(nfr)]
        if region == "main" and rng.random() < 0.12:
            sizes = [rng.choice(ELONGATED)]                          # aspect up to 1:10
        mode = rng.random()
        if region == "ge3":
            sizes = [(rng.randrange(24, 40), rng.randrange(24, 40)) for _ in range(nfr)]
            f = rng.choice([3, 4, Fraction(7, 2)])
            sc = rng.choice([(1, 1), (2, 1), (3, 2), (3, 1)])
            if sc == (3, 1):
                max_hw = [None, None]
            else:
                hmax, wmax = max(s[0] for s in sizes), max(s[1] for s in sizes)
                g = Fraction(f) / Fraction(*sc)
                max_hw = [int(hmax * g), int(wmax * g) + rng.randrange(0, 10)]
        elif region == "round":
            sc = rng.choice([(3, 10), (7, 10), (3, 8), (5, 8), (1, 1), (3, 2), (1, 2)])
            decimal = tuple(sc) in DECIMAL
            sizes = [(rng.randrange(60, 200), rng.randrange(60, 200)) for _ in range(nfr)]
            hmax, wmax = max(s[0] for s in sizes), max(s[1] for s in sizes)
            max_hw = rng.choice([[None, None], [hmax + rng.randrange(0, 60), wmax + rng.randrange(0, 60)],
                                 [int(hmax * 2.3), int(wmax * 2.6)]])
        else:
            hmax, wmax = max(s[0] for s in sizes), max(s[1] for s in sizes)
            if mode < 0.3:
                max_hw = [None, None]
            elif mode < 0.55:
                max_hw = [hmax, wmax]                      # what get_max_height_width gives
            elif mode < 0.7:
                k = rng.choice([2, 2, Fraction(1, 2), Fraction(3, 2)])   # exact targets when sizes divide
                sizes = [(s[0] - s[0] % 2, s[1] - s[1] % 2) for s in sizes][:1]
                max_hw = [int(sizes[0][0] * k), int(sizes[0][1] * k) + rng.choice([0, 0, 7, 20])]
            else:
                max_hw = [hmax + rng.randrange(0, 40), wmax + rng.randrange(0, 40)]
        stride = rng.choice([1, 2, 8, 16, 16, 32])
        s = Fraction(*sc)
        frames, bad = [], False
        for (h, w) in sizes:
            applied, eff, inexact_sm = sm_facts(h, w, max_hw[0], max_hw[1])
            f_total = eff * s
            h1 = max_hw[0] if (applied and max_hw[0]) else h
            w1 = max_hw[1] if (applied and max_hw[1]) else w
            inexact_rs = s != 1 and ((h1 * s).denominator != 1 or (w1 * s).denominator != 1)
            if min(h * eff, w * eff) * min(s, 1) < 16 or max(h1, w1) * max(s, 1) > 460:
                bad = True
            if region == "main" and (f_total >= 2 or inexact_rs and s < 1 or (inexact_sm and f_total > Fraction(3, 2))):
                bad = True
            if region == "ge3" and f_total < 3:
                bad = True
            sigma = pick_sigma(f_total)
            n_inst = rng.choice([1, 1, 2, 3])
            first = None
            if cls == "Centered" and rng.random() < 0.5 and min(h, w) - 1 - 7 * sigma > 2:
                # border-hugging anchor: 3σ … 3σ+3 px from one border (or two: a corner)
                d = lambda: int(16 * (3 * sigma + rng.random() * 3)) / 16
                fx = rng.choice([d(), w - 1 - d(), rng.randrange(int(16 * 3.5 * sigma), int(16 * (w - 1 - 3.5 * sigma))) / 16])
                fy = rng.choice([d(), h - 1 - d()]) if rng.random() < 0.6 else \
                    rng.randrange(int(16 * 3.5 * sigma), int(16 * (h - 1 - 3.5 * sigma))) / 16
                first = (fx, fy)
            pts = gen_points(rng, h, w, 2 * n_inst, sigma, margin_sig=rng.choice([3.5, 5]), first=first)
            if len(pts) < 2:
                bad = True
                break
            insts = [[pts[2 * i], pts[2 * i + 1]] for i in range(len(pts) // 2)]
            frames.append({"h": h, "w": w, "c": rng.choice([1, 1, 3]), "sigma": sigma, "insts": insts})
        if bad:
            continue
        anchor = rng.choice([0, 1, None])
        # a missing (NaN) non-anchor node now and then
        if rng.random() < 0.25 and cls in ("BottomUp", "Single", "Centered"):
            inst = frames[0]["insts"][-1]
            j = 1 if anchor in (0, None) else 0
            if anchor is not None:
                inst[j] = (None, None)
        c = {"kind": "ds", "cls": cls, "frames": frames, "max_hw": max_hw, "scale": list(sc), "stride": stride,
             "rgb": rng.random() < 0.3, "anchor": anchor, "seed": rng.randrange(2 ** 31), "decimal": decimal, "region": region}
        if cls == "Single":
            for fr in c["frames"]:
                fr["insts"] = fr["insts"][:1]
        if cls == "Centered":
            ch = rng.choice([16, 24, 32, 48, 40])
            c["crop_hw"] = [ch, rng.choice([ch, ch, 32])]
        # config max_height / max_width override the max_hw argument per component
        if rng.random() < 0.3 and (max_hw[0] is not None or max_hw[1] is not None):
            cfg, arg = [None, None], list(max_hw)
            for j in (0, 1):
                if max_hw[j] is not None and rng.random() < 0.7:
                    cfg[j] = max_hw[j]
                    arg[j] = rng.choice([None, max_hw[j] + 16, max(s_[j] for s_ in sizes)])   # decoy: must be ignored
            c["cfg_max_hw"], c["max_hw"] = cfg, arg
        elif rng.random() < 0.1:
            c["cfg_max_hw"] = [None, None]
        c["np_chunks"] = rng.random() < 0.25
        c["existing"] = c["np_chunks"] and rng.random() < 0.4      # read through use_existing_chunks=True
        c["all_instances"] = rng.random() < 0.15                    # user_instances_only=False
        # read history: every index at least once, repeats (immediate and interleaved)
        n = sum(len(fr["insts"]) for fr in frames) if cls == "Centered" else len(frames)
        reads = list(range(n))
        rng.shuffle(reads)
        reads = reads[:rng.randrange(1, n + 1)]
        for _ in range(rng.choice([1, 2, 2, 3])):
            reads.insert(rng.randrange(1, len(reads) + 1), rng.choice(reads))
        if rng.random() < 0.5:
            reads.append(reads[0])
        c["reads"] = reads
        r = rng.random()
        if r < 0.25:
            c["intensity"] = dict(rng.choice(INT_PARAMS))
        elif r < 0.55 and region == "main":
            c["geometric"] = gen_geo_params(rng, mild=rng.random() < 0.6)
        elif r < 0.65 and region == "main":
            c["intensity"] = dict(rng.choice(INT_PARAMS))
            c["geometric"] = gen_geo_params(rng, mild=True)
        return c
    return None


# =========================================================================== known findings (witness replays)
KNOWN_WITNESSES = {
    "F-C04": {"kind": "sm", "h": 16, "w": 16, "mh": 64, "mw": 64, "pts": [(5.0, 9.0)], "sigma": 1.6, "c": 1, "region": "ge3"},
    # predicted offsets 1.21 / 1.18 px: clear of the ±0.15 knife band around 1 px
    "F-C04b": {"kind": "rs", "h": 403, "w": 403, "scale": [3, 10], "pts": [(375.0, 200.0)], "sigma": 5.0, "c": 1,
               "decimal": True, "region": "trunc"},
}
KNOWN_WITNESSES["F-C04c"] = {   # 160×1600, zoom 2.5, 20°: predicted / measured offset ≈ 1.2 px
    "kind": "aug", "mode": "geo", "h": 160, "w": 1600, "c": 1, "sigma": 1.6, "seed": 1, "pts": [(1050.1875, 15.5)],
    "params": {"rotation": [20.0, 20.0], "scale": [2.5, 2.5], "translate_width": 0.0, "translate_height": 0.0, "affine_p": 1.0},
    "nan_last": False, "region": "warp"}
KNOWN_WITNESSES["F-C04d"] = {
    "kind": "ds", "cls": "Centroid", "region": "stale", "decimal": False, "rgb": False, "anchor": 0, "seed": 5, "stride": 16,
    "scale": [1, 1], "max_hw": [None, None], "np_chunks": False, "reads": [0, 0],
    "frames": [{"h": 96, "w": 96, "c": 1, "sigma": 1.7, "insts": [[(30.0, 40.0), (60.0, 62.0)]]}],
    "geometric": {"rotation": [30.0, 30.0], "scale": None, "translate_width": 0.0, "translate_height": 0.0, "affine_p": 1.0}}
KNOWN_WITNESSES_EXTRA = {   # second witness of F-C04b: the size matcher's rounded target (factor 2.5 < 3)
    "F-C04b": {"kind": "sm", "h": 20, "w": 43, "mh": 58, "mw": 200, "pts": [(32.0, 10.0)], "sigma": 1.6, "c": 1, "region": "round"},
}


def run_cases(chk, cases, count=True):
    """exec all → one driver call → judge.  Returns list of bools (all agreed & oracle held)."""
    execd, lines = [], []
    for c in cases:
        ls, obs = exec_case(c)
        execd.append((c, obs, len(ls)))
        lines += ls
    outs = run_driver("C04.lean", lines)
    res, i = [], 0
    for c, obs, n in execd:
        o = outs[i:i + n]
        i += n
        bad = [x for x in o if not x.startswith("ok")]
        if bad:
            chk.disagree("driver accepts the case", c, None, bad[0])
            res.append(False)
            continue
        ok = globals()["judge_" + c["kind"]](chk, c, obs, o)
        res.append(ok)
        if count:
            key = strip(c)
            chk.case(key, key if len(chk.samples) < 5 else None, tags=[tag_of(c)])
    return res


def strip(c):
    return {k: v for k, v in c.items() if not k.startswith("_")}


def tag_of(c):
    if c["kind"] == "ds":
        t = f"ds:{c['cls']}:{c['region']}"
        if c.get("geometric"):
            t += ":geo"
        if c.get("intensity"):
            t += ":int"
        if c.get("np_chunks"):
            t += ":npz" + ("-existing" if c.get("existing") else "")
        return t
    if c["kind"] == "aug":
        return "aug:" + c["mode"]
    return c["kind"] + (":" + c["region"] if "region" in c else "")


def _debug(chk):
    import collections
    print("DEBUG failing:", collections.Counter((f["what"].split(":")[0] + ":" + f["what"].split(":")[1][:60], tuple(f["signatures"])) for f in chk.failing))
    print("DEBUG disagreements:", collections.Counter(d["correspondence"] for d in chk.disagreements))
    for d in chk.disagreements[:12]:
        print("  D", d["correspondence"], {k: v for k, v in d["case"].items() if k != "frames"}, "impl", d["impl"], "model", d["model"])
    for f in [f for f in chk.failing if not f["signatures"]][:12]:
        print("  F", f["what"], {k: v for k, v in f["case"].items() if k != "frames"}, f["observed"])


def main(chk: Check):
    global torch
    # one C04 run at a time: regenerate + build + driver runs must see one consistent generated file
    import fcntl
    chk._c04_lock = open(LEAN / ".verif-C04-run.lock", "w")
    fcntl.flock(chk._c04_lock, fcntl.LOCK_EX)
    ok, msg = py2lean_c04.regenerate(REPO, LEAN)
    chk.extra["translator"] = msg
    if not ok:
        chk.broken.append(msg + " (hand model + correspondence remain)")
    try:
        chk.build_and_audit()
    finally:
        # a run against another tree (SLEAP_NN_REPO) must not leave its translation in /verif: the
        # built .olean keeps the other tree's definition for this run's driver; the source goes back
        if REPO.resolve() != Path("/repo").resolve() and Path("/repo").is_dir():
            py2lean_c04.regenerate(Path("/repo"), LEAN)
            chk.extra["translator"] += "; source restored from /repo after the build"
    import_repo()
    import torch as _t
    torch = _t
    Rec.install()
    fill_oc_table()
    rng = chk.rng
    torch.manual_seed(rng.randrange(2 ** 31))
    np.random.seed(rng.randrange(2 ** 31))

    # ---- known findings: replay the witnesses
    for fid, w in list(KNOWN_WITNESSES.items()) + list(KNOWN_WITNESSES_EXTRA.items()):
        sub = Check.__new__(Check)
        sub.__dict__.update({**chk.__dict__, "failing": [], "disagreements": [], "hist": {}, "knife_edges": 0})
        run_cases(sub, [w], count=False)
        still = any(fid_sig(fid) in f["signatures"] for f in sub.failing)
        if sub.disagreements:
            chk.disagreements += sub.disagreements
        try:
            n0 = len(chk.known_lines)
            chk.known_replay(fid, still, detail=f"witness {w['kind']} {w.get('cls', '')}")
            if len(chk.known_lines) > n0 and chk.known_lines[-1] in chk.known_lines[:-1]:
                chk.known_lines.pop()
        except RuntimeError as e:
            chk.broken.append(str(e))
        # failures of a witness that do not carry its signature are ordinary failures
        chk.failing += [f for f in sub.failing if fid_sig(fid) not in f["signatures"]]

    # ---- corpus
    import json
    cdir = Path(__file__).resolve().parent.parent / "corpus" / "C04"
    corpus = [json.loads(p.read_text()) for p in sorted(cdir.glob("*.json"))] if cdir.is_dir() else []
    cases = [normalise(c) for c in corpus]

    # ---- generated cases
    def add(g, n, *a):
        for _ in range(n):
            c = g(rng, *a)
            if c is not None:
                cases.append(c)

    add(gen_pad, chk.n(150, 1500))
    add(gen_sm, chk.n(100, 800), "main")
    add(gen_rs, chk.n(100, 800), "main")
    add(gen_crop, chk.n(60, 600))
    add(gen_cropsize, chk.n(80, 800))
    add(gen_pipe, chk.n(20, 200))
    add(gen_aug, chk.n(30, 300), "int")
    add(gen_aug, chk.n(80, 600), "geo")
    for cls in ("BottomUp", "Single", "Centroid", "Centered"):
        add(gen_ds, chk.n(60, 500), cls, "main")
    # wide / tall frames (coordinates beyond 2048 and 4096 px), np_chunks and in-memory
    for cls, npz in [("BottomUp", True), ("Single", True), ("Centroid", True), ("Centered", True),
                     (rng.choice(["BottomUp", "Single", "Centroid"]), False)]:     # in-memory cache for contrast
        add(gen_ds_wide, chk.n(1, 4), cls, npz)
    n_main = len(cases)
    # ---- regions the partial theorems exclude (search, not proof coverage)
    add(gen_sm, chk.n(15, 150), "ge3")
    add(gen_sm, chk.n(25, 250), "round")
    add(gen_rs, chk.n(10, 100), "ge3")
    add(gen_rs, chk.n(25, 250), "trunc")
    for cls in ("BottomUp", "Single", "Centroid", "Centered"):
        add(gen_ds, chk.n(5, 50), cls, "ge3")
        add(gen_ds, chk.n(8, 80), cls, "round")
    chk.extra["excluded_region_cases"] = len(cases) - n_main
    B = 120
    for i in range(0, len(cases), B):
        run_cases(chk, cases[i:i + B])
    if os.environ.get("C04_DEBUG"):
        _debug(chk)
    chk.extra["measurement"] = dict(STATS)
    chk.extra["content_tolerance_px"] = TOL_CONTENT
    chk.extra["keypoint_tolerance_px"] = TOL_KP


def fill_oc_table():
    cs = list(range(1, 161))
    outs = run_driver("C04.lean", [f"oc {v}" for v in cs])
    for v, o in zip(cs, outs):
        OC_TABLE[v] = int(o.split()[1])


def fid_sig(fid):
    return {"F-C04": "upscale_ge_3", "F-C04b": "target_size_rounding", "F-C04c": "affine_warp_nonsquare",
            "F-C04d": "unaugmented_key"}[fid]


def normalise(c):
    """JSON round trip: tuples became lists — fine for every consumer; points stay [x, y]."""
    c = dict(c)
    if "pts" in c:
        c["pts"] = [tuple(p) for p in c["pts"]]
    if "frames" in c and c["kind"] == "ds":
        for fr in c["frames"]:
            fr["insts"] = [[tuple(p) for p in inst] for inst in fr["insts"]]
    if c.get("kind") == "pipe":
        c["insts"] = [[tuple(p) for p in inst] for inst in c["insts"]]
        if c.get("geo") and c["geo"].get("scale") is not None:
            c["geo"]["scale"] = tuple(c["geo"]["scale"])
    if "frames" in c and c["kind"] == "cropsize":
        c["frames"] = [[[tuple(p) for p in inst] for inst in fr] for fr in c["frames"]]
    return c


def replay(chk: Check, payload):
    global torch
    import_repo()
    import torch as _t
    torch = _t
    Rec.install()
    fill_oc_table()
    case = payload.get("case") or payload["disagreements"][0]["case"]
    case = normalise({k: v for k, v in case.items() if k not in ("point", "sample", "read_no")})
    print("replay", {k: v for k, v in case.items() if k != "frames"})
    if case.get("kind") == "ds":
        print("  read sequence (dataset indices, in order):", case.get("reads"))
    run_cases(chk, [case])
    for f in chk.failing:
        print("  oracle:", f["what"], f["observed"], f["signatures"])
    for d in chk.disagreements:
        print("  disagreement:", d["correspondence"], "impl", d["impl"], "model", d["model"])


if __name__ == "__main__":
    chk = Check(
        "C04", module="SleapVerif.Props.C04", theorems=THEOREMS,
        build_targets=["SleapVerif.Model.Proto", "SleapVerif.Model.Geometry", "SleapVerif.Gen.TranslatedGeometry",
                       "SleapVerif.Lemmas.Geometry"],
        trusted=[
            "Lean 4.33 kernel + the Mathlib modules imported by Lemmas/Geometry.lean; axioms ⊆ {propext, Classical.choice, Quot.sound} (audited per run)",
            "hand-written model Geometry.lean; tied to /repo by the per-run correspondence on the explored inputs only",
            "py2lean_c04.py (Python // and % ↦ Int.fdiv/Int.fmod) for find_padding_for_stride: pad_minimal is about the generated definition",
            "content maps of torchvision resize ((x+½)·n'/n − ½), F.pad (identity), kornia crop_and_resize (x − tl) and kornia RandomAffine "
            "(S·A·S⁻¹, keypoints A): assumed by the model, measured on every run with marker images to 0.15 px",
            "blob-centroid measurement (windowed, thresholded) as the observation of 'where the image content is'; WHETHER a blob is measured "
            "(start guess, window radius, border / neighbour / knife skips) is driven by the model's content point — a model/implementation "
            "divergence shows up as a disagreement instead",
            "recorded from the implementation and fed to the model: kornia's transform matrix and RandomAffine's align_corners flag (selects "
            "the model's aug / auga step); the over-crop size is NOT recorded — it comes from the driver (`oc`, Geometry.overcropSize)",
            "float32/float64 evaluation of the coordinate arithmetic stays within 2e-3 px of the exact rationals (measured)",
            "harness shims: kornia.core.Tensor alias, recording subclass of AugmentationSequential, in-memory sio.Video backend",
        ],
        rule="marker-image cases: functional API (pad / sizematcher / resizer / crops / crop size / intensity and geometric augmentation) and "
             "BottomUp/SingleInstance/Centroid/CenteredInstance Dataset.__getitem__ over frame sizes 24–220, 1–2 videos of different size, "
             "max_hw ∈ {None, labels max, explicit}, dyadic and decimal scales, strides, crop sizes, anchors, NaN nodes, gray/RGB, "
             "augmentation draws (recorded matrix); distinct = distinct parameter dict; excluded regions (up-scaling ≥ 3, inexact integer "
             "targets) sampled separately and counted in excluded_region_cases",
        assumptions=[
            "keypoints are compared at pixel centres inside the image; blobs nearer than 3σ+1.5 px to the output border are not measured (counted)",
            "model-predicted offsets within 0.15 px of the 1-px bound are knife-edges (skipped, counted)",
            "the warp inside kornia's RandomAffine is an external parameter: its matrix is recorded, its content map S·A·S⁻¹ is measured, not proved",
            "labels without any instance are outside the quantifier: find_instance_crop_size then ignores min_crop_size (generated, compared "
            "with the model, Props cropsize_empty*), not flagged",
            "legacy SizeMatcher datapipe (pad only), Normalizer and the litdata chunk functions are not exercised; RandomMixUpV2 only with a "
            "batch of one (identity)",
        ],
    )
    run_check(chk, main, replay)
