"""C11 — datasets never alter or invent labels; same index gives the same sample; length =
number of non-empty instances.

Model: lean/SleapVerif/Model/Datasets.lean (value-level sample specification + heap-level
`genCentroids` / `build` / `getItem` state machine); theorems: lean/SleapVerif/Props/C11.lean.

Correspondence, every run:
  * `generate_centroids` (rank 3 and 4 inputs): returned centroids AND the argument tensor after
    the call vs the driver's heap model, exactly (lattice coordinates), every NaN pattern class;
  * the other functional helpers (bbox midpoint, centered bboxes, crops, confmaps, multi-confmaps,
    PAFs, resizer, sizematcher, pad-to-stride, normalisation, grayscale/rgb, both augmentation
    functions): argument tensors snapshotted before / compared after (the model says: no writes);
  * the four Dataset classes built from in-memory `sio.Labels` derived from
    tests/assets/minimal_instance.pkg.slp: `len`, index lists, and every sample returned along a
    random `__getitem__` sequence vs the driver running the same call sequence on its heap.
Property oracle (independent of the model): inputs untouched; NaN in the labels <=> NaN in the
sample (+ zero confidence-map channel); every read of an index identical to its first read; the
cache and the caller's label coordinates unchanged; length = number of non-empty instances.
"""
import copy
import os
import random
import shutil
import tempfile
from fractions import Fraction

from common import REPO, Check, call, import_repo, rat, run_check, run_driver

THEOREMS = [
    "SleapVerif.C11.helpers_pure",
    "SleapVerif.C11.centroids_repaired_value",
    "SleapVerif.C11.centroids_asIs_pure_partial",
    "SleapVerif.C11.centroids_alias_counterexample",
    "SleapVerif.C11.centroid_fallback",
    "SleapVerif.C11.centroid_none_iff",
    "SleapVerif.C11.prepPts_pattern",
    "SleapVerif.C11.sub_missing",
    "SleapVerif.C11.label_missing_iff",
    "SleapVerif.C11.empty_iff_all_missing",
    "SleapVerif.C11.missing_repr_irrelevant_inst",
    "SleapVerif.C11.missing_repr_irrelevant",
    "SleapVerif.C11.missing_stays_missing",
    "SleapVerif.C11.prepPts_value",
    "SleapVerif.C11.present_stays_present",
    "SleapVerif.C11.centroid_present",
    "SleapVerif.C11.present_stays_present_centered",
    "SleapVerif.C11.centroid_missing_iff",
    "SleapVerif.C11.ds_missing_iff_label",
    "SleapVerif.C11.len_eq_labelled",
    "SleapVerif.C11.sample_provenance",
    "SleapVerif.C11.config_flag_irrelevant",
    "SleapVerif.C11.chunks_written_independent_of_directory",
    "SleapVerif.C11.chunks_keep_counterexample",
    "SleapVerif.C11.present_multi_channel_nonzero",
    "SleapVerif.C11.present_centroid_channel_nonzero",
    "SleapVerif.C11.padding_rows_missing",
    "SleapVerif.C11.missing_stays_missing_centered",
    "SleapVerif.C11.missing_channel_zero",
    "SleapVerif.C11.missing_multi_channel_zero",
    "SleapVerif.C11.getitem_frame",
    "SleapVerif.C11.getitem_value",
    "SleapVerif.C11.cache_unchanged",
    "SleapVerif.C11.getitem_deterministic",
    "SleapVerif.C11.getitem_eq_spec",
    "SleapVerif.C11.build_refines_spec",
    "SleapVerif.C11.getitem_eq_spec_build",
    "SleapVerif.C11.build_len",
    "SleapVerif.C11.single_rows_unpadded",
    "SleapVerif.C11.nocopy_counterexample",
    "SleapVerif.C11.len_eq_nonempty",
    "SleapVerif.C11.len_frames_eq_nonempty",
    "SleapVerif.C11.filtered_idem",
]

SIG = "nan_anchor_written_through_view"
KINDS = ["bottomup", "single", "centroid", "centered"]
VIDEO_HW = [(96, 128), (48, 64), (96, 128)]   # synthetic videos cut from the shipped frame (each with its own content)
MAX_HW = [(None, None), (None, None), (96, 128), (120, 160), (192, 256), (96, 160), (144, 160), (48, 64)]
PT_KEYS = {"instances": "instances", "centroids": "centroids", "instance": "instance",
           "centroid": "centroid", "instance_bbox": "bbox"}


# ------------------------------------------------------------------ small helpers
def fr(x):
    if x is None or x != x:
        return None
    if x in (float("inf"), float("-inf")):
        return "inf" if x > 0 else "-inf"      # never equal to a model value
    return Fraction(x)


def pts_of(t):
    """tensor (..., 2) -> list of [x, y] with exact rationals / None for NaN"""
    return [[fr(a), fr(b)] for a, b in t.reshape(-1, 2).tolist()]


def pts_json(p):
    def j(a):
        return a if a is None or isinstance(a, str) else float(a)

    return [[j(a), j(b)] for a, b in p]


def same(a, b):
    """torch.equal including the NaN pattern"""
    import torch

    if a.shape != b.shape or a.dtype != b.dtype:
        return False
    if a.is_floating_point():
        return bool(((a == b) | (torch.isnan(a) & torch.isnan(b))).all())
    return bool((a == b).all())


def coords_line(pts):
    return " ".join(rat(c) for p in pts for c in p)


class Toks:
    def __init__(self, s):
        self.t = s.split()
        self.i = 0

    def next(self):
        self.i += 1
        return self.t[self.i - 1]

    def nat(self):
        return int(self.next())

    def pts(self):
        n = self.nat()
        out = []
        for _ in range(n):
            a, b = self.next(), self.next()
            out.append([None if a == "nan" else Fraction(a), None if b == "nan" else Fraction(b)])
        return out

    def expect(self, w):
        x = self.next()
        if x != w:
            raise ValueError(f"driver output: expected {w} got {x}")


def parse_cen(out):
    tk = Toks(out)
    tk.expect("ok"); tk.expect("c"); c = tk.pts(); tk.expect("in"); p = tk.pts(); tk.expect("spec"); s = tk.pts()
    return {"c": c, "in": p, "spec": s}


def parse_ds(out):
    tk = Toks(out)
    tk.expect("ok"); tk.expect("len"); n = tk.nat(); tk.expect("idx"); m = tk.nat()
    idx = [tk.nat() for _ in range(m)]
    tk.expect("reads"); k = tk.nat()
    reads = []
    for _ in range(k):
        w = tk.next()
        if w == "raise":
            reads.append("raise")
            continue
        assert w == "s", w
        nk = tk.nat()
        keys = {}
        for _ in range(nk):
            name = tk.next()
            keys[name] = tk.pts()
        meta = [tk.nat() for _ in range(5)]
        reads.append({"keys": keys, "meta": meta})
    tk.expect("spec"); ok = tk.nat()
    return {"len": n, "idx": idx, "reads": reads, "spec": ok}


# ------------------------------------------------------------------ generators
def lattice(rng, lo, hi):
    return rng.randrange(int(lo * 16), int(hi * 16) + 1) / 16.0


def gen_points(rng, n_inst, n_nodes, anchor, half_nan=True):
    """(n_inst, n_nodes) points with every NaN pattern class, biased to a missing anchor."""
    out = []
    for _ in range(n_inst):
        mode = rng.choice(["full", "anchor_missing", "anchor_missing", "random", "all_nan", "one_visible"])
        inst = []
        for n in range(n_nodes):
            x, y = lattice(rng, -8, 140), lattice(rng, -8, 110)
            if rng.random() < 0.2:
                x, y = float(int(x)), float(int(y))
            miss = {"full": False, "anchor_missing": n == anchor or rng.random() < 0.2,
                    "random": rng.random() < 0.4, "all_nan": True,
                    "one_visible": n != rng.randrange(n_nodes)}[mode]
            if miss:
                if half_nan and rng.random() < 0.25 and mode != "all_nan":
                    inst.append([x, None] if rng.random() < 0.5 else [None, y])
                else:
                    inst.append([None, None])
            else:
                inst.append([x, y])
        out.append(inst)
    return out


def gen_labels_spec(rng):
    n_nodes = rng.choice([2, 2, 3, 4])
    n_frames = rng.choice([1, 1, 2, 3, 4])
    half_nan = rng.random() < 0.12       # some labelled nodes carry one NaN coordinate (visible=True)
    ill = rng.random() < 0.04            # ill-flagged: a node flagged visible with NaN stored (outside the property's domain)
    two_videos = rng.random() < 0.3
    shared = rng.random() < 0.25          # 2-3 videos embedded in one file: equal `filename`, different content
    n_videos = rng.choice([2, 3]) if shared else (2 if two_videos else 1)
    n_frames = max(n_frames, n_videos) if shared else n_frames
    used = set()
    frames = []
    for _ in range(n_frames):
        vi = rng.randrange(n_videos)
        if shared and len(frames) < n_videos:
            vi = n_videos - 1 - len(frames)       # every video is used, the later ones first
        fi = rng.choice([i for i in range(4) if (vi, i) not in used])
        used.add((vi, fi))
        n_inst = rng.choice([0, 1, 1, 2, 2, 3, 4])
        insts = []
        H, W = VIDEO_HW[vi]
        for _ in range(n_inst):
            kind = "pred" if rng.random() < 0.3 else "user"
            mode = rng.choice(["full", "full", "some", "empty", "anchorless"])
            pts, raw = [], []
            hole = rng.randrange(n_nodes)
            # how this instance stores its missing nodes: NaN (what from_numpy stores), hidden
            # (finite xy kept, visible=False), or a mix
            how = rng.choice(["nan", "hidden", "hidden", "mix"])
            for n in range(n_nodes):
                x, y = lattice(rng, 1, W - 2), lattice(rng, 1, H - 2)
                if rng.random() < 0.15:
                    x, y = float(int(x)), float(int(y))
                miss = {"full": False, "some": rng.random() < 0.4, "empty": True, "anchorless": n == hole}[mode]
                if not miss and half_nan and rng.random() < 0.3:
                    x, y = (x, None) if rng.random() < 0.5 else (None, y)
                pts.append([None, None] if miss else [x, y])     # the label as the property means it
                if not miss:
                    raw.append([x, y, True])
                elif ill and rng.random() < 0.6:
                    raw.append([None, None, True])               # flagged visible, nothing stored
                elif how == "hidden" or (how == "mix" and rng.random() < 0.5):
                    raw.append([x, y, False])                    # stored coordinates, not visible
                else:
                    raw.append([None, None, False])
            insts.append({"kind": kind, "pts": pts, "raw": raw})
        frames.append({"frame_idx": fi, "video_idx": vi, "insts": insts})
    return {"n_nodes": n_nodes, "n_videos": n_videos, "shared_filename": shared, "frames": frames,
            "ill_flagged": any(p[2] and p[0] is None and p[1] is None for f in frames for i in f["insts"] for p in i["raw"])}


def centroid_defined(spec):
    """every non-empty instance has a labelled x and a labelled y (so its centroid is a point)"""
    return all(any(p[0] is not None for p in i["pts"]) and any(p[1] is not None for p in i["pts"])
               for f in spec["frames"] for i in f["insts"] if nonempty(i))


def gen_cfg(rng, spec, kind=None):
    kind = kind or rng.choice(KINDS)
    if kind == "centered" and (spec.get("ill_flagged") or not centroid_defined(spec)):
        kind = rng.choice(KINDS[:3])     # the crop needs a centroid: see notes (assumption)
    holes = [n for f in spec["frames"] for i in f["insts"] for n, p in enumerate(i["pts"]) if p[0] is None or p[1] is None]
    anchor = rng.choice([None, rng.randrange(spec["n_nodes"])] + ([rng.choice(holes)] * 2 if holes else []))
    cfg_hw = [None, None]
    if rng.random() < 0.35:       # data_config.preprocessing.max_height / max_width (take precedence, per component)
        pick = rng.choice(MAX_HW[2:])
        cfg_hw = [pick[0] if rng.random() < 0.7 else None, pick[1] if rng.random() < 0.7 else None]
    return {"kind": kind, "user_only": rng.random() < 0.7, "max_hw": list(rng.choice(MAX_HW)), "cfg_max_hw": cfg_hw,
            "scale": rng.choice([1.0, 1.0, 0.5, 0.25]), "anchor": anchor,
            "crop_hw": list(rng.choice([(32, 32), (48, 64), (100, 100), (17, 24)])),
            "max_stride": rng.choice([1, 16, 32]), "np_chunks": rng.random() < 0.2,
            "aug": rng.random() < 0.12, "is_rgb": rng.random() < 0.2,
            # data_config.use_augmentations_train: the trainer hands the TRAINING config to every dataset
            "cfg_aug_flag": rng.random() < 0.5}


def raw_of(inst):
    """stored representation [x, y, visible] per node (older cases: NaN for every missing node)"""
    return inst.get("raw") or [[p[0], p[1], p[0] is not None or p[1] is not None] for p in inst["pts"]]


def ds_line(variant, spec, cfg, seq):
    mh, mw = cfg["max_hw"]
    ch, cw = cfg.get("cfg_max_hw", [None, None])
    tok = ["ds", str(variant), str(KINDS.index(cfg["kind"])), "1" if cfg["user_only"] else "0",
           str(-1 if mh is None else mh), str(-1 if mw is None else mw),
           str(-1 if ch is None else ch), str(-1 if cw is None else cw), rat(cfg["scale"]),
           str(-1 if cfg["anchor"] is None else cfg["anchor"]), str(cfg["crop_hw"][0]), str(cfg["crop_hw"][1]),
           "1" if cfg.get("aug") else "0", "1" if cfg.get("cfg_aug_flag") else "0",
           str(len(spec["frames"]))]
    for f in spec["frames"]:
        H, W = VIDEO_HW[f["video_idx"]]
        tok += [str(f["frame_idx"]), str(f["video_idx"]), str(H), str(W), str(len(f["insts"]))]
        for i in f["insts"]:
            tok += ["0" if i["kind"] == "user" else "1", str(len(i["pts"])),
                    " ".join(f"{rat(x)} {rat(y)} {1 if v else 0}" for x, y, v in raw_of(i))]
    tok += [str(len(seq))] + [str(i) for i in seq]
    return " ".join(t for t in tok if t != "")


# ------------------------------------------------------------------ independent expectations (oracle side)
def filtered(f, user_only):
    us = [i for i in f["insts"] if i["kind"] == "user"]
    return us if (user_only and us) else f["insts"]


def nonempty(i):
    return any(p[0] is not None or p[1] is not None for p in i["pts"])


def expected_rows(spec, cfg):
    """Which label instance each sample is made of (restating the property, not the model)."""
    rows = []
    if cfg["kind"] == "centered":
        for f in spec["frames"]:
            for i in filtered(f, cfg["user_only"]):
                if nonempty(i):
                    rows.append((f, [i]))
    else:
        for f in spec["frames"]:
            ne = [i for i in filtered(f, cfg["user_only"]) if nonempty(i)]
            if ne:
                rows.append((f, ne))
    return rows


# ------------------------------------------------------------------ the check
class World:
    """sleap-io objects derived from the shipped labels file (built once per run)."""

    def __init__(self, tmp):
        import numpy as np
        import sleap_io as sio
        from PIL import Image

        self.sio, self.np = sio, np
        base = sio.load_slp(str(REPO / "tests/assets/minimal_instance.pkg.slp"))
        self.base = base
        self.skel2 = base.skeletons[0]
        img = base[0].image[..., 0]
        import h5py

        self.files, self.frames = [], []
        for vi, (H, W) in enumerate(VIDEO_HW):
            fns, arrs = [], []
            for k in range(4):
                fn = os.path.join(tmp, f"v{vi}_f{k}.png")
                arr = np.ascontiguousarray(np.roll(img[120:120 + H, 60:60 + W], 5 * k + 23 * vi, axis=1))
                Image.fromarray(arr).save(fn)
                fns.append(fn)
                arrs.append(arr)
            self.files.append(fns)
            self.frames.append(arrs)
        # the same videos as embedded datasets of ONE file: every Video then has the same `filename`
        self.container = os.path.join(tmp, "multi_video.pkg.slp")
        with h5py.File(self.container, "w") as h5:
            for vi, arrs in enumerate(self.frames):
                h5.create_dataset(f"video{vi}/video", data=np.stack(arrs)[..., None])
        self.skels = {2: self.skel2}
        for n in (3, 4):
            names = [f"n{i}" for i in range(n)]
            self.skels[n] = sio.Skeleton(nodes=names, edges=[(names[i], names[i + 1]) for i in range(n - 1)])

    def labels(self, spec):
        sio, np = self.sio, self.np
        skel = self.skels[spec["n_nodes"]]
        if spec.get("shared_filename"):
            videos = [sio.Video.from_filename(self.container, dataset=f"video{v}/video", grayscale=True)
                      for v in range(spec["n_videos"])]
            assert all(v.filename == videos[0].filename for v in videos)
        else:
            videos = [sio.Video.from_filename(self.files[v], grayscale=True) for v in range(spec["n_videos"])]
        lfs = []
        for f in spec["frames"]:
            insts = []
            for i in f["insts"]:
                raw = raw_of(i)
                arr = np.array([[np.nan if c is None else c for c in p[:2]] for p in raw], dtype="float64")
                if i["kind"] == "user":
                    inst = sio.Instance.from_numpy(arr, skel)
                else:
                    inst = sio.PredictedInstance.from_numpy(arr, skel, point_scores=np.full(len(arr), 0.5), score=0.9)
                for k, p in enumerate(raw):
                    # the stored flags are the spec's: hides nodes that keep their coordinates, keeps a node
                    # visible whose x is NaN (from_numpy derives the flag from x alone), marks ill-flagged ones
                    inst.points["visible"][k] = bool(p[2])
                # sleap-io's own reading of the label must be the spec's `pts`
                want = np.array([[np.nan if c is None else c for c in p] for p in i["pts"]], dtype="float64")
                got = inst.numpy()
                assert got.shape == want.shape and bool(((got == want) | (np.isnan(got) & np.isnan(want))).all())
                insts.append(inst)
            lfs.append(sio.LabeledFrame(video=videos[f["video_idx"]], frame_idx=f["frame_idx"], instances=insts))
        return sio.Labels(labeled_frames=lfs, videos=videos, skeletons=[skel])


AUG_CONFIG = {
    "intensity": {"uniform_noise_p": 1.0, "gaussian_noise_p": 1.0, "contrast_p": 1.0, "brightness": (0.9, 1.1),
                  "brightness_p": 1.0},
    "geometric": {"rotation": 60.0, "scale": (0.6, 1.4), "translate_width": 0.25, "translate_height": 0.25,
                  "affine_p": 1.0, "erase_p": 1.0},
}   # large ranges: an augmentation that is applied cannot be mistaken for the identity


def make_dataset(labels, cfg, chunk_dir=None, use_existing=False):
    from omegaconf import OmegaConf
    from sleap_nn.data.custom_datasets import (BottomUpDataset, CenteredInstanceDataset, CentroidDataset,
                                               SingleInstanceDataset)

    pre = {"is_rgb": bool(cfg.get("is_rgb"))}
    ch, cw = cfg.get("cfg_max_hw", [None, None])
    if ch is not None or cw is not None or cfg.get("cfg_keys_present"):
        pre["max_height"], pre["max_width"] = ch, cw
    # the augmentation settings are ALWAYS present in the config (as in a training config); whether they are
    # applied is the constructor argument `apply_aug` alone, whatever `use_augmentations_train` says
    dc = OmegaConf.create({"user_instances_only": cfg["user_only"], "preprocessing": pre,
                           "use_augmentations_train": bool(cfg.get("cfg_aug_flag")),
                           "augmentation_config": AUG_CONFIG})
    hc = OmegaConf.create({"sigma": CM_SIGMA, "output_stride": CM_STRIDE, "anchor_part": cfg["anchor"]})
    common = dict(labels=labels, data_config=dc, max_stride=cfg["max_stride"], scale=cfg["scale"],
                  apply_aug=bool(cfg.get("aug")), max_hw=tuple(cfg["max_hw"]))
    if cfg.get("np_chunks"):
        common.update(np_chunks=True, np_chunks_path=chunk_dir, use_existing_chunks=use_existing)
    k = cfg["kind"]
    if k == "bottomup":
        pc = OmegaConf.create({"sigma": 4, "output_stride": 4})
        return BottomUpDataset(confmap_head_config=hc, pafs_head_config=pc, **common)
    if k == "single":
        return SingleInstanceDataset(confmap_head_config=hc, **common)
    if k == "centroid":
        return CentroidDataset(confmap_head_config=hc, **common)
    return CenteredInstanceDataset(confmap_head_config=hc, crop_hw=tuple(cfg["crop_hw"]), **common)


def canon_sample(s):
    import torch

    keys = {PT_KEYS[k]: pts_of(v) for k, v in s.items() if k in PT_KEYS}
    oh, ow = [int(x) for x in s["orig_size"].tolist()]
    meta = [int(s["num_instances"]), int(s["frame_idx"]), int(s["video_idx"]), oh, ow]
    finite = all(bool(torch.isfinite(v).all()) for k, v in s.items()
                 if isinstance(v, torch.Tensor) and ("image" in k or "maps" in k or "fields" in k))
    return {"keys": keys, "meta": meta}, finite


def snapshot(s):
    import torch

    return {k: (v.clone() if isinstance(v, torch.Tensor) else copy.deepcopy(v)) for k, v in s.items()}


def same_sample(a, b):
    import torch

    if set(a) != set(b):
        return f"key sets differ: {sorted(a)} vs {sorted(b)}"
    for k in a:
        if isinstance(a[k], torch.Tensor):
            if not isinstance(b[k], torch.Tensor) or not same(a[k], b[k]):
                return f"key {k} differs"
        elif a[k] != b[k]:
            return f"key {k} differs: {a[k]} vs {b[k]}"
    return None


BYSTANDER_SPEC = {"n_nodes": 2, "n_videos": 1, "frames": [
    {"frame_idx": 1, "video_idx": 0, "insts": [{"kind": "user", "pts": [[70.5, 30.25], [80.0, 41.0]]},
                                               {"kind": "user", "pts": [[20.0, 60.5], [31.0, 70.0]]}]},
    {"frame_idx": 3, "video_idx": 0, "insts": [{"kind": "user", "pts": [[11.0, 12.0], [14.5, 19.0]]}]}]}
CM_SIGMA, CM_STRIDE = 1.5, 2       # confidence-map head used by every dataset of the check


def peak_shortfall(chan, x, y, stride=CM_STRIDE, sigma=CM_SIGMA):
    """A labelled keypoint must show in its channel: at the grid cell nearest to (x, y) (clipped
    to the map) the channel is at least the keypoint's own Gaussian there — whatever other animals
    contribute or lack.  Returns None or (cell, value, expected)."""
    import math

    h, w = chan.shape[-2:]
    j = min(max(int(round(x / stride)), 0), w - 1)
    i = min(max(int(round(y / stride)), 0), h - 1)
    want = math.exp(-((j * stride - x) ** 2 + (i * stride - y) ** 2) / (2 * (sigma * stride) ** 2))
    got = float(chan[i, j])
    return None if got >= want - 1e-4 else ((i, j), got, want)


def pmiss(p):
    """a keypoint with a NaN coordinate is missing for centroid anchors and confidence maps"""
    return p[0] is None or p[1] is None


def expected_coords(spec, cfg, row):
    """VALUE ORACLE, independent of the Lean model (exact rationals): what the property lets the
    sample hold.  Frame-based classes: every labelled coordinate times the size-matching factor
    and the input scale.  Centered class: the same, re-centred so that the centroid (anchor when
    labelled, else the bounding-box midpoint of the labelled coordinates) sits at the crop centre
    `((w-1)/2, (h-1)/2)`.  Returns (rows of [x, y] with None for missing, centroids or None)."""
    f, insts = row
    H, W = VIDEO_HW[f["video_idx"]]
    ch, cw = cfg.get("cfg_max_hw", [None, None])
    mh = ch if ch is not None else (cfg["max_hw"][0] if cfg["max_hw"][0] is not None else H)   # documented precedence
    mw = cw if cw is not None else (cfg["max_hw"][1] if cfg["max_hw"][1] is not None else W)
    eff = min(Fraction(mh, H), Fraction(mw, W)) if (mh, mw) != (H, W) else Fraction(1)
    k = eff * Fraction(cfg["scale"])

    def sc(p):
        return [None if c is None else Fraction(c) * k for c in p]

    def centroid(pts):
        a = cfg["anchor"]
        if a is not None and not pmiss(pts[a]):
            return pts[a]
        out = []
        for d in (0, 1):
            vs = [q[d] for q in pts if q[d] is not None]
            out.append((max(vs) + min(vs)) / 2 if vs else None)
        return out

    rows = [[sc(p) for p in i["pts"]] for i in insts]
    cens = [centroid(r) for r in rows]
    if cfg["kind"] == "centered":
        c = cens[0]
        off = [Fraction(cfg["crop_hw"][1] - 1, 2), Fraction(cfg["crop_hw"][0] - 1, 2)]
        rows = [[[None if (q[d] is None or c[d] is None) else q[d] - c[d] + off[d] for d in (0, 1)] for q in rows[0]]]
        cens = [[None if c[d] is None else off[d] for d in (0, 1)]]
    return rows, cens


def oracle_sample(spec, cfg, row, s, aug=False):
    """Property oracle on one returned sample (independent of the model): a coordinate missing in
    the labels is NaN in the sample and vice versa, padding rows are NaN, zero confidence-map
    channel for a missing node, a peak for a labelled one, and (augmentation off) every
    coordinate has the value the labels prescribe.  Returns (why | None, structural facts)."""
    import torch

    f, insts = row
    nn = spec["n_nodes"]
    bad = []
    facts = {"invented_nodes": set()}
    exp_rows, exp_cens = expected_coords(spec, cfg, row)

    def coord_checks(name, got, exp, r, n):
        """got: tensor (2,), exp: [x, y] rationals/None"""
        for d in (0, 1):
            g = float(got[d])
            g_nan = g != g
            if exp[d] is None and not g_nan:
                bad.append(f"{name}[{r},{n}].{'xy'[d]} missing in the labels but {g} in the sample")
                facts["invented_nodes"].add(n)
            elif exp[d] is not None and g_nan:
                if aug and pmiss(exp):
                    continue      # an affine map mixes the coordinates: a half-labelled point may lose its other half
                bad.append(f"{name}[{r},{n}].{'xy'[d]} labelled but NaN in the sample")
            elif exp[d] is not None and not aug and (g in (float("inf"), float("-inf")) or Fraction(g) != exp[d]):
                bad.append(f"{name}[{r},{n}].{'xy'[d]} = {g} but the labels prescribe {float(exp[d])}")

    if cfg["kind"] == "centered":
        got = s["instance"].reshape(-1, 2)
        cm = s["confidence_maps"][0]
        if got.shape[0] != nn:
            bad.append(f"sample['instance'] has {got.shape[0]} rows for {nn} nodes")
        for n in range(min(nn, got.shape[0])):
            coord_checks("instance", got[n], exp_rows[0][n], 0, n)
            if pmiss(insts[0]["pts"][n]) and float(cm[n].abs().max()) != 0.0:
                bad.append(f"confidence map of missing node {n} peaks at {float(cm[n].max()):.3f}")
            if not aug and not pmiss(insts[0]["pts"][n]) and not bool(torch.isnan(got[n]).any()):
                sf = peak_shortfall(cm[n], float(got[n, 0]), float(got[n, 1]))
                if sf:
                    bad.append(f"labelled node {n} has no peak in its confidence map: cell {sf[0]} = {sf[1]:.4f}, own Gaussian {sf[2]:.4f}")
        coord_checks("centroid", s["centroid"].reshape(-1, 2)[0], exp_cens[0], 0, 0)
    else:
        got = s["instances"].reshape(-1, nn, 2)
        k = len(insts)
        if int(s["num_instances"]) != k:
            bad.append(f"num_instances {int(s['num_instances'])} != {k} non-empty instances")
        if got.shape[0] < k:
            bad.append(f"sample['instances'] has {got.shape[0]} rows for {k} non-empty instances")
        for r in range(got.shape[0]):
            for n in range(nn):
                coord_checks("instances", got[r, n], exp_rows[r][n] if r < k else [None, None], r, n)
        if cfg["kind"] == "centroid":
            cen = s["centroids"].reshape(-1, 2)
            for r in range(cen.shape[0]):
                coord_checks("centroids", cen[r], exp_cens[r] if r < k else [None, None], r, 0)
                if not aug and r < k and not bool(torch.isnan(cen[r]).any()):
                    sf = peak_shortfall(s["centroids_confidence_maps"][0][0], float(cen[r, 0]), float(cen[r, 1]))
                    if sf:
                        bad.append(f"centroid of animal {r} has no peak in the centroid map: cell {sf[0]} = {sf[1]:.4f}, own Gaussian {sf[2]:.4f}")
        if cfg["kind"] in ("single", "bottomup") and not aug:
            cm = s["confidence_maps"][0]
            for r in range(min(k, got.shape[0])):
                for n in range(nn):
                    if not pmiss(insts[r]["pts"][n]) and not bool(torch.isnan(got[r, n]).any()):
                        ch = n if cfg["kind"] == "bottomup" else r * nn + n
                        if ch < cm.shape[0]:
                            sf = peak_shortfall(cm[ch], float(got[r, n, 0]), float(got[r, n, 1]))
                            if sf:
                                others = [q for q in range(k) if q != r and pmiss(insts[q]["pts"][n])]
                                bad.append(f"labelled node {n} of animal {r} has no peak in channel {ch}: cell {sf[0]} = {sf[1]:.4f}, "
                                           f"own Gaussian {sf[2]:.4f}" + (f" (animals {others} lack node {n})" if others else ""))
        if cfg["kind"] == "single":
            cm = s["confidence_maps"][0]
            for r in range(min(got.shape[0], cm.shape[0] // nn)):
                for n in range(nn):
                    if (r >= k or pmiss(insts[r]["pts"][n])) and float(cm[r * nn + n].abs().max()) != 0.0:
                        bad.append(f"confidence map of missing row {r} node {n} is not zero")
        if cfg["kind"] == "bottomup":
            cm = s["confidence_maps"][0]
            for n in range(nn):
                if all(pmiss(i["pts"][n]) for i in insts) and float(cm[n].abs().max()) != 0.0:
                    bad.append(f"confidence map of node {n} (missing in every instance) is not zero")
    return ("; ".join(bad[:4]) if bad else None), facts


def provenance(world, spec, cfg, f, s, ds, labels, aug):
    """A sample carries the identity of the labelled frame its keypoints come from:
    `labels.videos[video_idx]` is the very Video object of that frame, `(video_idx, frame_idx)`
    locates that frame among the labelled frames, `orig_size` is that video's size, and (where the
    image is not resampled) the pixels are that video's frame."""
    import torch

    k = next(j for j, g in enumerate(spec["frames"]) if g is f)
    lf = labels[k]
    vidx, fidx = int(s["video_idx"]), int(s["frame_idx"])
    bad = []
    if fidx != f["frame_idx"] or fidx != lf.frame_idx:
        bad.append(f"frame_idx {fidx} but the keypoints are those of frame {f['frame_idx']}")
    if not (0 <= vidx < len(ds.labels.videos)) or ds.labels.videos[vidx] is not lf.video:
        bad.append(f"video_idx {vidx} is not the video of the source frame (video {f['video_idx']} of {spec['n_videos']}"
                   + (", all sharing one filename" if spec.get("shared_filename") else "") + ")")
    else:
        hit = [g for g in spec["frames"] if (g["video_idx"], g["frame_idx"]) == (vidx, fidx)]
        if len(hit) != 1 or hit[0] is not f:
            bad.append(f"(video_idx, frame_idx) = ({vidx}, {fidx}) does not locate the labelled frame the keypoints come from")
    if [int(x) for x in s["orig_size"].tolist()] != list(VIDEO_HW[f["video_idx"]]):
        bad.append(f"orig_size {s['orig_size'].tolist()} is not the size of the source video")
    H, W = VIDEO_HW[f["video_idx"]]
    mh = cfg.get("cfg_max_hw", [None, None])[0] or cfg["max_hw"][0] or H
    mw = cfg.get("cfg_max_hw", [None, None])[1] or cfg["max_hw"][1] or W
    if not aug and cfg["kind"] != "centered" and cfg["scale"] == 1.0 and (mh, mw) == (H, W) and "image" in s:
        px = torch.round(s["image"][0, 0, :H, :W] * 255).to(torch.uint8)
        src = torch.from_numpy(world.frames[f["video_idx"]][f["frame_idx"]])
        if not bool((px == src).all()):
            bad.append("the image is not the source frame of the video the keypoints belong to")
    return "; ".join(bad) if bad else None


def poke_sample(s, cfg):
    """Functional-API calls on the tensors of a RETURNED sample (they alias the cache: the dict
    copy is shallow).  Returns a description of the first tensor of the sample that changed."""
    import torch
    from sleap_nn.data import augmentation as aug
    from sleap_nn.data.confidence_maps import generate_confmaps, generate_multiconfmaps
    from sleap_nn.data.edge_maps import generate_pafs
    from sleap_nn.data.instance_centroids import find_points_bbox_midpoint, generate_centroids
    from sleap_nn.data.instance_cropping import generate_crops, make_centered_bboxes
    from sleap_nn.data.resizing import apply_pad_to_stride, apply_resizer

    snap = snapshot(s)
    a = cfg["anchor"]
    if cfg["kind"] == "centered":
        img, pts = s["instance_image"], s["instance"]
        hw = tuple(img.shape[-2:])
        calls = [(generate_centroids, (pts, a)), (generate_centroids, (pts, None)), (find_points_bbox_midpoint, (pts,)),
                 (generate_confmaps, (pts, hw)), (make_centered_bboxes, (s["centroid"][0], 8, 8)),
                 (generate_crops, (img, pts[0], s["centroid"][0], (8, 8))), (apply_resizer, (img, pts, 0.5)),
                 (aug.apply_intensity_augmentation, (img, pts), AUG_CONFIG["intensity"]),
                 (aug.apply_geometric_augmentation, (img, pts), AUG_CONFIG["geometric"])]
    else:
        img, pts = s["image"], s["instances"]
        hw = tuple(img.shape[-2:])
        n = int(s["num_instances"])
        calls = [(generate_centroids, (pts, a)), (generate_centroids, (pts, None)), (find_points_bbox_midpoint, (pts,)),
                 (generate_confmaps, (pts, hw)), (generate_multiconfmaps, (pts, hw, n)),
                 (generate_pafs, (pts, hw, 4, 4, torch.tensor([[0.0, 1.0]]), True)),
                 (apply_resizer, (img, pts, 0.5)), (apply_pad_to_stride, (img, 32)),
                 (aug.apply_intensity_augmentation, (img, pts), AUG_CONFIG["intensity"]),
                 (aug.apply_geometric_augmentation, (img, pts), AUG_CONFIG["geometric"])]
        if "centroids" in s:
            calls += [(generate_multiconfmaps, (s["centroids"], hw, n, 1.5, 2, True))]
    for c in calls:
        kw = c[2] if len(c) > 2 else {}
        call(c[0], *c[1], **kw)
        why = same_sample(snap, s)
        if why:
            return f"{c[0].__name__} called on the tensors of a returned sample changed it ({why})"
    return None


FILLER_SPEC = {"n_nodes": 2, "n_videos": 1, "frames": [
    {"frame_idx": fi, "video_idx": 0, "insts": [{"kind": "user", "pts": [[8.0 + 9 * a + fi, 70.5 - 11 * a], [17.25 + 9 * a, 61.0 - 11 * a + fi]]}
                                               for a in range(4)]} for fi in range(4)]}


def labels_snapshot(labels):
    return [[(inst, inst.numpy().copy(), inst.points["xy"].copy(), inst.points["visible"].copy())
             for inst in lf.instances] for lf in labels]


def labels_changed(labels, snap):
    import numpy as np

    def eq(a, b):
        return a.shape == b.shape and bool(((a == b) | (np.isnan(a) & np.isnan(b))).all())

    for lf, row in zip(labels, snap):
        if [id(x) for x in lf.instances] != [id(t[0]) for t in row]:
            return "the instance list of a frame changed"
        for inst, arr, xy0, vis0 in row:
            if not eq(inst.points["xy"], xy0):
                return f"stored coordinates of a label instance changed: {xy0.tolist()} -> {inst.points['xy'].tolist()}"
            if not bool((inst.points["visible"] == vis0).all()) or not eq(inst.numpy(), arr):
                return "visibility / numpy() of a label instance changed"
    return None


def label_reader_checks(labels, spec, rng):
    """The label-reading helpers of the trainer path (find_instance_crop_size, get_max_instances,
    get_max_height_width) only READ: stored xy / visible unchanged, a repeated call returns the
    same value, and the value is what the labels say (independent rationals).  Returns failures."""
    import math
    from sleap_nn.data.instance_cropping import find_instance_crop_size
    from sleap_nn.data.providers import get_max_height_width, get_max_instances

    fails = []
    snap = labels_snapshot(labels)
    insts = [i for f in spec["frames"] for i in f["insts"]]
    for scaling in (0.5, 1.0, 2.0):
        padding, stride = rng.choice([0, 8]), rng.choice([2, 16])
        min_crop = rng.choice([None, None, 15, 32])
        args = dict(padding=padding, maximum_stride=stride, input_scaling=scaling, min_crop_size=min_crop)
        r1 = call(find_instance_crop_size, labels, **args)
        why = labels_changed(labels, snap)
        if why:
            fails.append(f"find_instance_crop_size(input_scaling={scaling}) altered the labels: {why}")
            break
        r2 = call(find_instance_crop_size, labels, **args)
        if r1 != r2:
            fails.append(f"find_instance_crop_size(input_scaling={scaling}) returned {r1[1:]} then {r2[1:]} on the same labels")
        mc = min_crop or 0
        if mc > 0 and mc % stride == 0:
            want = mc
        else:
            length = Fraction(0)
            for i in insts:
                for d in (0, 1):
                    vs = [Fraction(p[d]) * Fraction(scaling) for p in i["pts"] if p[d] is not None]
                    length = max(length, (max(vs) - min(vs)) if vs else 0, mc - padding)
            want = math.ceil((length + padding) / stride) * stride
        if r1[0] != "ok" or int(r1[1]) != want:
            fails.append(f"find_instance_crop_size({args}) = {r1[1:]} but the labels give {want}")
    got = call(get_max_instances, labels)
    if got != ("ok", max([len(f["insts"]) for f in spec["frames"]] + [-1])):
        fails.append(f"get_max_instances = {got[1:]}")
    got = call(get_max_height_width, labels)
    hw = [VIDEO_HW[v] for v in range(spec["n_videos"])]
    if got != ("ok", (max(h for h, _ in hw), max(w for _, w in hw))):
        fails.append(f"get_max_height_width = {got[1:]}")
    why = labels_changed(labels, snap)
    if why and not fails:
        fails.append(f"a label-reading helper altered the labels: {why}")
    return fails


def run_dataset_case(chk, world, case, m_rep, m_asis, tmp):
    """Returns nothing; registers the case, disagreements and failures."""
    import torch

    spec, cfg, seq = case["spec"], case["cfg"], case["seq"]
    labels = world.labels(spec)
    before = labels_snapshot(labels)
    pre_fails = []
    if case.get("pre_helpers"):       # the trainer reads the labels before it builds the dataset from them
        pre_fails = label_reader_checks(labels, spec, random.Random(ds_line(1, spec, cfg, [])))
        chk.tag("label_readers_called_before_build")
    chunk_dir = None
    if cfg.get("np_chunks"):          # `.npz` chunk path: scratch directory, removed after the case
        chunk_dir = tempfile.mkdtemp(prefix="chunks_", dir=tmp)
        if case.get("stale"):         # ... that still holds the chunks an EARLIER dataset (other labels) wrote
            call(make_dataset, world.labels(FILLER_SPEC),
                 dict(cfg, anchor=None if cfg["anchor"] is None else min(cfg["anchor"], 1), aug=False), chunk_dir)
            chk.tag("chunk_dir_holds_an_earlier_datasets_files")
    try:
        _run_dataset_case(chk, world, case, m_rep, m_asis, labels, before, chunk_dir, pre_fails)
    finally:
        if chunk_dir:
            shutil.rmtree(chunk_dir, ignore_errors=True)


def file_digest(path):
    import hashlib

    with open(path, "rb") as fh:
        return hashlib.sha1(fh.read()).hexdigest()


def _run_dataset_case(chk, world, case, m_rep, m_asis, labels, before, chunk_dir, pre_fails=()):
    import torch

    spec, cfg, seq = case["spec"], case["cfg"], case["seq"]
    npc = bool(cfg.get("np_chunks"))
    augm = bool(cfg.get("aug"))                 # augmented reads are random: no model / first-read comparison
    ill = bool(spec.get("ill_flagged"))         # outside the property's domain: model (as coded) is the only reference
    r = call(make_dataset, labels, cfg, chunk_dir)
    if r[0] == "raise":
        chk.disagree("Dataset construction raised where the model builds a cache", case_json(case), f"raise:{r[1]}: {r[2]}", "ok")
        chk.fail(f"C11: the dataset cannot be built from valid labels ({r[1]}: {r[2][:120]})", case_json(case), None, signatures=[])
        return
    ds = r[1]
    rows = expected_rows(spec, cfg) if not ill else [None] * m_rep["len"]
    impl_idx = ([x for p in ds.instance_idx_list for x in p] if cfg["kind"] == "centered" else list(ds.lf_idx_list))
    first, impl_reads, fails, facts_all = {}, [], list(pre_fails), {"invented_nodes": set()}

    def snap_entry(e):      # a chunk file (digest) or an in-memory sample dict
        return ("file", e, file_digest(e) if os.path.exists(e) else None) if isinstance(e, (str, os.PathLike)) else ("dict", snapshot(e))

    cache0 = {i: snap_entry(ds.cache[i]) for i in ds.cache}
    files0 = sorted(os.listdir(chunk_dir)) if npc else None
    if sorted(ds.cache) != list(range(len(rows))):
        fails.append(f"the dataset's cache has keys {sorted(ds.cache)[:8]} for {len(rows)} samples "
                     "(entries that do not belong to this dataset)")
    if any((k[0] == "file") != npc for k in cache0.values()):
        fails.append("the dataset's cache mixes chunk files and in-memory samples (shared with another dataset?)")
    for i in seq:
        rr = call(ds.__getitem__, i)
        if rr[0] == "raise":
            impl_reads.append("raise")
            if i < len(rows):
                fails.append(f"ds[{i}] raised {rr[1]}: {rr[2]}")
            continue
        s = rr[1]
        c, finite = canon_sample(s)
        impl_reads.append(c)
        if not finite:
            fails.append(f"ds[{i}]: image / map tensors contain NaN or inf")
        if augm:
            first.setdefault(i, None)
        elif i in first:
            why = same_sample(first[i], s)
            if why:
                fails.append(f"read of index {i} differs from its first read: {why}")
        else:
            first[i] = snapshot(s)
        if i < len(rows) and not ill:
            try:
                why, facts = oracle_sample(spec, cfg, rows[i], s, aug=augm)
            except Exception as e:   # e.g. a sample of another label set (other node count)
                why, facts = f"the sample does not have the shape the labels prescribe ({type(e).__name__}: {str(e)[:120]})", {"invented_nodes": set()}
            facts_all["invented_nodes"] |= facts["invented_nodes"]
            if why:
                fails.append(f"ds[{i}]" + (" (augmentation on)" if augm else "") + f": {why}")
            why = provenance(world, spec, cfg, rows[i][0], s, ds, labels, augm)
            if why:
                fails.append(f"ds[{i}] provenance: {why}")
        if case.get("poke"):          # functional-API calls on the returned tensors, between reads
            why = poke_sample(s, cfg)
            if why:
                fails.append(f"ds[{i}]: {why}")
    # cache and labels untouched by the reads; length
    def cache_changes(when):
        for i, snap in cache0.items():
            if snap[0] == "file":
                if ds.cache.get(i) != snap[1] or not os.path.exists(snap[1]) or file_digest(snap[1]) != snap[2]:
                    fails.append(f"chunk file of index {i} changed {when}")
                continue
            now = ds.cache.get(i)
            why = same_sample(snap[1], now) if isinstance(now, dict) else "entry replaced"
            if why:
                fails.append(f"cache entry {i} changed {when}: {why}")

    cache_changes("during the reads")
    # a second dataset built in the same process (train / validation) must not disturb this one
    if case.get("bystander") and first and not augm:
        # chunked datasets get a chunked bystander in its OWN directory (the documented use: train_chunks / val_chunks)
        bdir = tempfile.mkdtemp(prefix="bystander_", dir=os.path.dirname(chunk_dir)) if npc else None
        other = call(make_dataset, world.labels(BYSTANDER_SPEC),
                     dict(cfg, np_chunks=npc, anchor=None if cfg["anchor"] is None else min(cfg["anchor"], 1)), bdir)
        if other[0] == "ok":
            call(other[1].__getitem__, 0)
            cache_changes("when another dataset was built")
            for i in sorted(first):
                rr = call(ds.__getitem__, i)
                why = "raised" if rr[0] == "raise" else same_sample(first[i], rr[1])
                if why:
                    fails.append(f"ds[{i}] changed after another dataset of the same class was built: {why}")
                    break
        if bdir:
            shutil.rmtree(bdir, ignore_errors=True)
    # `use_existing_chunks=True` over this dataset's own chunk directory: same length, same samples
    # (not when the directory also holds an earlier dataset's files: `use_existing_chunks` trusts the directory)
    if npc and not augm and first and case.get("bystander") and not case.get("stale"):
        again = call(make_dataset, world.labels(spec), cfg, chunk_dir, True)
        if again[0] == "raise":
            fails.append(f"use_existing_chunks=True dataset over the fresh chunks raised {again[1]}: {again[2][:100]}")
        else:
            if len(again[1]) != len(rows):
                fails.append(f"use_existing_chunks=True: len = {len(again[1])} but the labels have {len(rows)} samples")
            for i in sorted(first):
                rr = call(again[1].__getitem__, i)
                why = "raised" if rr[0] == "raise" else same_sample(first[i], rr[1])
                if why:
                    fails.append(f"use_existing_chunks=True: ds[{i}] differs from the dataset that wrote the chunks: {why}")
                    break
            chk.tag("use_existing_chunks")
    if npc and sorted(os.listdir(chunk_dir)) != files0:
        fails.append("chunk directory contents changed during the reads")
    if len(ds) != len(rows) and not ill:
        fails.append(f"len(dataset) = {len(ds)} but the labels have {len(rows)} non-empty "
                     + ("instances" if cfg["kind"] == "centered" else "frames"))
    dropped = 0
    for lf, snap in zip(labels, before):
        now = {id(x) for x in lf.instances}
        for inst, arr, xy0, vis0 in snap:
            if not same(torch.from_numpy(inst.numpy()), torch.from_numpy(arr)) \
                    or not same(torch.from_numpy(inst.points["xy"].copy()), torch.from_numpy(xy0)) \
                    or not bool((inst.points["visible"] == vis0).all()):
                fails.append("coordinates / visibility of a label instance changed")
            if id(inst) not in now:
                dropped += 1
                if type(inst) is world.sio.Instance:
                    fails.append("a user instance was removed from the caller's labels")
    if dropped:
        chk.tag("labels_predicted_dropped_in_place")
    cmp_keys = ("len", "idx") if augm else ("len", "idx", "reads")
    impl = {k: v for k, v in {"len": len(ds), "idx": impl_idx, "reads": impl_reads}.items() if k in cmp_keys}
    model = {k: m_rep[k] for k in cmp_keys}
    anchor_holes = cfg["anchor"] is not None and any(
        pmiss(i["pts"][cfg["anchor"]]) and nonempty(i) for f in spec["frames"] for i in filtered(f, cfg["user_only"]))
    tags = [cfg["kind"], "user_only" if cfg["user_only"] else "all_instances", f"scale{cfg['scale']}",
            "anchor_none" if cfg["anchor"] is None else "anchor_set"] + (["anchor_missing_somewhere"] if anchor_holes else [])
    tags += [f"apply_aug={int(augm)}/use_augmentations_train={int(bool(cfg.get('cfg_aug_flag')))}:" + cfg["kind"]]
    if spec.get("shared_filename"):
        tags.append(f"{spec['n_videos']}_videos_sharing_one_filename:" + cfg["kind"])
    tags += ["np_chunks" if npc else "in_memory_cache"] + (["apply_aug"] if augm else []) + (["ill_flagged_labels"] if ill else []) \
        + (["is_rgb"] if cfg.get("is_rgb") else []) + (["poke_returned_sample"] if case.get("poke") else [])
    if any((p[0] is None) != (p[1] is None) for f in spec["frames"] for i in f["insts"] for p in i["pts"]):
        tags.append("half_nan_keypoint")
    for _f, _ne in rows if (cfg["kind"] != "centered" and not ill) else []:
        if len(_ne) >= 2 and any(any(i["pts"][n][0] is None for i in _ne) and any(i["pts"][n][0] is not None for i in _ne)
                                 for n in range(spec["n_nodes"])):
            tags.append("node_missing_in_one_animal_present_in_another:" + cfg["kind"])
            break
    raws = [(i, raw_of(i)) for f in spec["frames"] for i in f["insts"]]
    if any(not p[2] and p[0] is not None for _, r in raws for p in r):
        tags.append("hidden_node_with_stored_xy")
    if cfg["anchor"] is not None and any(not r[cfg["anchor"]][2] and r[cfg["anchor"]][0] is not None for _, r in raws):
        tags.append("hidden_anchor_with_stored_xy")
    if any(r and all(not p[2] and p[0] is not None for p in r) for _, r in raws):
        tags.append("instance_all_hidden_with_stored_xy")
    if any(i["kind"] == "pred" and any(not p[2] and p[0] is not None for p in r) for i, r in raws):
        tags.append("hidden_node_in_predicted_instance")
    if any(c is not None for c in cfg.get("cfg_max_hw", [None, None])):
        tags.append("cfg_max_hw_set")
    key = (cfg["kind"], npc, ds_line(1, spec, cfg, []))
    chk.case(key if rows else None, {"cfg": cfg, "frames": len(spec["frames"]), "len": len(ds), "reads": len(seq)}, tags)
    if m_rep["spec"] != 1:
        chk.disagree("heap-level getItem == specSample (model-internal)", case, None, m_rep)
    agree = impl == model
    if agree and not fails:
        return
    # classification: does the code behave exactly like the as-coded (aliasing) model on a NaN anchor?
    as_coded = (not agree) and impl == {k: m_asis[k] for k in cmp_keys}
    structural = (cfg["kind"] in ("centroid", "centered") and anchor_holes
                  and facts_all["invented_nodes"] <= {cfg["anchor"]})
    if as_coded and structural and fails:
        chk.fail("C11: " + fails[0], case_json(case), {"impl_reads": reads_json(impl_reads)[:2]}, signatures=[SIG])
        return
    if not agree:
        chk.disagree("Dataset.__getitem__/__len__ == Datasets.getItem/build", case_json(case),
                     {"len": impl["len"], "idx": impl_idx, "reads": reads_json(impl_reads)[:3]},
                     {"len": model["len"], "idx": model["idx"], "reads": reads_json(m_rep["reads"])[:3]})
    for w in fails[:3]:
        chk.fail("C11: " + w, case_json(case), {"impl_reads": reads_json(impl_reads)[:2]}, signatures=[])


def reads_json(reads):
    out = []
    for r in reads:
        if r == "raise":
            out.append(r)
        else:
            out.append({"keys": {k: pts_json(v) for k, v in r["keys"].items()}, "meta": r["meta"]})
    return out


def case_json(case):
    return {"spec": case["spec"], "cfg": case["cfg"], "seq": case["seq"], "bystander": bool(case.get("bystander")),
            "poke": bool(case.get("poke")), "pre_helpers": bool(case.get("pre_helpers")), "stale": bool(case.get("stale"))}


# ------------------------------------------------------------------ functional API
def centroid_case(chk, case, m_rep, m_asis):
    import torch
    from sleap_nn.data.instance_centroids import generate_centroids

    pts, anchor, rank4 = case["points"], case["anchor"], case["rank4"]
    p = torch.tensor([[[float("nan") if c is None else c for c in q] for q in inst] for inst in pts], dtype=torch.float32)
    p = p.reshape(len(pts), len(pts[0]), 2)
    layout = case.get("layout") or ("rank4" if rank4 else "rank3")
    base = None
    if layout == "rank4":
        p = p.unsqueeze(0)
    elif layout == "rank5":
        p = p.unsqueeze(0).unsqueeze(0)
    elif layout == "rank2" and len(pts) == 1:
        p = p[0]
    elif layout == "strided":            # non-contiguous view into a larger tensor (every other node of the base)
        base = torch.full((len(pts), 2 * len(pts[0]), 2), 7.0)
        base[:, ::2] = p
        p = base[:, ::2]
    elif layout == "expanded" and all(q == pts[0] for q in pts):
        p = p[:1].expand(len(pts), len(pts[0]), 2)   # stride-0 batch dimension
    base0 = None if base is None else base.clone()
    p0 = p.clone()
    r = call(generate_centroids, p, anchor)
    if r[0] == "raise":
        chk.disagree("generate_centroids == genCentroids", case, f"raise:{r[1]}: {r[2]}", "ok")
        return
    impl = {"c": pts_of(r[1]), "in": pts_of(p)}
    anchor_nan = anchor is not None and any(q[anchor][0] is None or q[anchor][1] is None for q in pts)
    tags = ["cen", "cen_anchor_none" if anchor is None else "cen_anchor_set", "cen_layout:" + layout] \
        + (["cen_anchor_nan"] if anchor_nan else [])
    chk.case(("cen", anchor, str(pts)), {"points": pts, "anchor": anchor, "impl": pts_json(impl["c"])}, tags)
    # oracle: input untouched; value = anchor when fully present else per-coordinate bbox midpoint
    why = None
    if not same(p, p0) or (base is not None and not same(base, base0)):
        why = "generate_centroids modified its `points` argument"
    else:
        for inst, c in zip(pts, impl["c"]):
            a = inst[anchor] if anchor is not None else [None, None]
            if a[0] is not None and a[1] is not None:
                exp = [Fraction(a[0]), Fraction(a[1])]
            else:
                exp = []
                for d in (0, 1):
                    vs = [Fraction(q[d]) for q in inst if q[d] is not None]
                    exp.append((max(vs) + min(vs)) / 2 if vs else None)
            if exp != c:
                why = f"centroid {pts_json([c])[0]} is neither the anchor nor the bbox midpoint {pts_json([exp])[0]}"
    rep = {"c": m_rep["c"], "in": m_rep["in"]}
    if impl == rep and why is None and m_rep["spec"] == m_rep["c"]:
        return
    if m_rep["spec"] != m_rep["c"]:
        chk.disagree("genCentroids == centroidOf (model-internal)", case, None, pts_json(m_rep["c"]))
    changed = [i for i, (a, b) in enumerate(zip(pts_of(p0), impl["in"])) if a != b]
    nn = len(pts[0])
    only_nan_anchor_rows = anchor is not None and all(
        i % nn == anchor and (pts[i // nn][anchor][0] is None or pts[i // nn][anchor][1] is None) for i in changed)
    if why and impl == {"c": m_asis["c"], "in": m_asis["in"]} and changed and only_nan_anchor_rows:
        chk.fail("C11: " + why, case, {"input_after": pts_json(impl["in"])}, signatures=[SIG])
        return
    if impl != rep:
        chk.disagree("generate_centroids == genCentroids", case, {k: pts_json(v) for k, v in impl.items()},
                     {k: pts_json(v) for k, v in rep.items()})
    if why:
        chk.fail("C11: " + why, case, {"input_after": pts_json(impl["in"]), "returned": pts_json(impl["c"])}, signatures=[])


def helper_purity(chk, rng, n):
    """Every functional helper must leave its argument tensors untouched (model: pure ops)."""
    import torch
    from sleap_nn.data import augmentation as aug
    from sleap_nn.data.confidence_maps import generate_confmaps, generate_multiconfmaps
    from sleap_nn.data.edge_maps import generate_pafs
    from sleap_nn.data.instance_centroids import find_points_bbox_midpoint
    from sleap_nn.data.instance_cropping import generate_crops, make_centered_bboxes
    from sleap_nn.data.normalization import apply_normalization, convert_to_grayscale, convert_to_rgb
    from sleap_nn.data.resizing import apply_pad_to_stride, apply_resizer, apply_sizematcher

    g = torch.Generator().manual_seed(rng.randrange(2**31))

    def T(pts):
        return torch.tensor([[[float("nan") if c is None else c for c in q] for q in inst] for inst in pts],
                            dtype=torch.float32)

    for it in range(n):
        n_inst, nn = rng.choice([1, 2, 3]), rng.choice([2, 3, 4])
        pts = gen_points(rng, n_inst, nn, rng.randrange(nn), half_nan=rng.random() < 0.3)
        H, W = rng.choice([(32, 48), (40, 40), (33, 47)])
        C = rng.choice([1, 1, 3])
        img = torch.rand((1, C, H, W), generator=g)
        img8 = (torch.rand((1, C, H, W), generator=g) * 255).to(torch.uint8)
        inst4 = T(pts).unsqueeze(0) * 0.3          # (1, n_inst, nn, 2) inside the small image
        if it % 3 == 1:                             # non-contiguous view into a larger tensor
            big = torch.full((1, n_inst, 2 * nn, 2), 3.0)
            big[:, :, ::2] = inst4
            inst4 = big[:, :, ::2]
        elif it % 3 == 2 and n_inst > 1:            # stride-0 (expanded) instance dimension
            inst4 = inst4[:, :1].expand(1, n_inst, nn, 2)
        inst3 = inst4[:, 0] if it % 2 else inst4[:, 0].clone()   # (1, nn, 2): a view of inst4 or its own storage
        cen = torch.tensor([lattice(rng, 4, W - 4), lattice(rng, 4, H - 4)], dtype=torch.float32)
        edges = torch.tensor([[i, i + 1] for i in range(nn - 1)], dtype=torch.float32)
        calls = [
            ("find_points_bbox_midpoint", find_points_bbox_midpoint, [inst4], {}),
            ("make_centered_bboxes", make_centered_bboxes, [cen, 16, 24], {}),
            ("generate_crops", generate_crops, [img, inst3[0], cen, (16, 24)], {}),
            ("generate_confmaps", generate_confmaps, [rng.choice([inst3, inst4])], {"img_hw": (H, W), "sigma": 1.5, "output_stride": 2}),
            ("generate_multiconfmaps", generate_multiconfmaps, [inst4], {"img_hw": (H, W), "num_instances": n_inst, "sigma": 1.5, "output_stride": 2}),
            ("generate_multiconfmaps[centroids]", generate_multiconfmaps, [inst4[:, :, 0].clone()], {"img_hw": (H, W), "num_instances": n_inst, "is_centroids": True}),
            ("generate_pafs", generate_pafs, [inst4], {"img_hw": (H, W), "sigma": 4, "output_stride": 4, "edge_inds": edges, "flatten_channels": True}),
            ("apply_resizer", apply_resizer, [img, inst4], {"scale": rng.choice([1.0, 0.5, 2.0])}),
            ("apply_sizematcher", apply_sizematcher, [img], {"max_height": H + rng.choice([0, 8]), "max_width": W + rng.choice([0, 16])}),
            ("apply_pad_to_stride", apply_pad_to_stride, [img], {"max_stride": rng.choice([1, 16, 32])}),
            ("apply_normalization", apply_normalization, [rng.choice([img, img8])], {}),
            ("convert_to_grayscale", convert_to_grayscale, [img], {}),
            ("convert_to_rgb", convert_to_rgb, [img], {}),
            ("apply_intensity_augmentation", aug.apply_intensity_augmentation, [img, rng.choice([inst3, inst4])],
             {"uniform_noise_p": 1.0, "gaussian_noise_p": 1.0, "contrast_p": 1.0, "brightness": (0.9, 1.1), "brightness_p": 1.0}),
            ("apply_geometric_augmentation", aug.apply_geometric_augmentation, [img, rng.choice([inst3, inst4])],
             {"rotation": 15.0, "scale": (0.9, 1.1), "translate_width": 0.1, "translate_height": 0.1,
              "affine_p": 1.0, "erase_p": 1.0}),
        ]
        for name, fn, args, kw in calls:
            tens = [(i, a, a.clone()) for i, a in enumerate(args) if isinstance(a, torch.Tensor)]
            tens += [(k, a, a.clone()) for k, a in kw.items() if isinstance(a, torch.Tensor)]
            torch.manual_seed(rng.randrange(2**31))
            r = call(fn, *args, **kw)
            chk.case(("pure", name, it) if it < 3 else None, None, ["pure:" + name])
            if r[0] == "raise":
                if it % 3 != 0 and "view size is not compatible" in r[2]:
                    # `.view` on a non-contiguous keypoint tensor: refuses the input, alters nothing (checked below)
                    chk.tag("refuses_noncontiguous_input:" + name)
                else:
                    chk.disagree(f"{name} is a pure op in the model", {"fn": name}, f"raise:{r[1]}: {r[2]}", "ok")
                    continue
            for where, a, a0 in tens:
                if not same(a, a0):
                    case = {"fn": name, "argument": where, "before": a0.tolist(), "kwargs": {k: str(v) for k, v in kw.items()}}
                    chk.disagree(f"{name} leaves its arguments untouched (model: pure op)", {"fn": name, "argument": where},
                                 "argument modified", "heap unchanged")
                    chk.fail(f"C11: {name} modified its argument {where}", case, {"after": a.tolist()}, signatures=[])


def multi_confmap_cases(chk, rng, n):
    """Functional API: a labelled keypoint keeps its peak in `generate_multiconfmaps` /
    `generate_confmaps` whatever the other animals lack (present_multi_channel_nonzero), a node
    missing in every counted animal gives the zero channel, the keypoint tensor is untouched."""
    import torch
    from sleap_nn.data.confidence_maps import generate_confmaps, generate_multiconfmaps

    fixed = [  # animal 0 lacks node 1, animal 1 has it (and vice versa for node 0)
        ([[[10.0, 12.0], [None, None]], [[None, None], [30.5, 20.25]]], 2),
        ([[[None, None], [None, None], [8.0, 8.0]], [[20.0, 6.0], [None, None], [None, None]], [[5.5, 30.0], [40.0, 33.0], [None, None]]], 3),
    ]
    for it in range(n + len(fixed)):
        if it < len(fixed):
            pts, num = fixed[it]
        else:
            n_inst, nn = rng.choice([2, 2, 3, 4]), rng.choice([1, 2, 3, 4])
            pts = [[[lattice(rng, 2, 60), lattice(rng, 2, 44)] if rng.random() < 0.6 else [None, None]
                    for _ in range(nn)] for _ in range(n_inst)]
            k = rng.randrange(nn)               # force the pattern on one node: animal 0 lacks it, animal 1 has it
            pts[0][k] = [None, None]
            pts[1][k] = [lattice(rng, 2, 60), lattice(rng, 2, 44)]
            num = rng.choice([n_inst, n_inst, max(2, n_inst - 1)])
        H, W = 48, 64
        stride, sigma = rng.choice([(2, 1.5), (4, 1.5), (2, 2.5), (1, 1.0)])
        t = torch.tensor([[[float("nan") if c is None else c for c in q] for q in inst] for inst in pts],
                         dtype=torch.float32).unsqueeze(0)
        nn = t.shape[2]
        cen = t[:, :, 0].clone()
        case = {"points": pts, "num_instances": num, "stride": stride, "sigma": sigma, "img_hw": [H, W]}
        for name, arg, kw, chan_of in [
            ("generate_multiconfmaps", t, dict(img_hw=(H, W), num_instances=num, sigma=sigma, output_stride=stride),
             lambda r, k: k),
            ("generate_multiconfmaps[centroids]", cen, dict(img_hw=(H, W), num_instances=num, sigma=sigma,
                                                            output_stride=stride, is_centroids=True), None),
            ("generate_confmaps", t, dict(img_hw=(H, W), sigma=sigma, output_stride=stride), lambda r, k: r * nn + k),
        ]:
            a0 = arg.clone()
            fn = generate_confmaps if name == "generate_confmaps" else generate_multiconfmaps
            r = call(fn, arg, **kw)
            chk.case(("cm", name, str(pts), num, stride, sigma) if it < 40 else None,
                     case if (it < 2 and name == "generate_multiconfmaps") else None, ["cm:" + name])
            if r[0] == "raise":
                chk.disagree(f"{name} raised", case, f"raise:{r[1]}: {r[2]}", "ok")
                chk.fail(f"C11: {name} raised on valid keypoints ({r[1]})", case, None, signatures=[])
                continue
            cm = r[1][0]
            bad = []
            if not same(arg, a0):
                bad.append(f"{name} modified its keypoint argument")
            if not bool(torch.isfinite(cm).all()):
                bad.append(f"{name} returned NaN/inf")
            counted = range(len(pts)) if name == "generate_confmaps" else range(num)
            if chan_of is None:      # centroid maps: one channel, "node" 0 of every counted animal
                pres = [(q, 0, pts[q][0]) for q in counted if pts[q][0][0] is not None]
                chans = {0: [pts[q][0][0] is None for q in counted]}
                ch_of = lambda q, k: 0
            else:
                pres = [(q, k, pts[q][k]) for q in counted for k in range(nn) if pts[q][k][0] is not None]
                ch_of = chan_of
                chans = {}
                for q in counted:
                    for k in range(nn):
                        chans.setdefault(ch_of(q, k), []).append(pts[q][k][0] is None)
            for q, k, (x, y) in pres:
                sf = peak_shortfall(cm[ch_of(q, k)], x, y, stride, sigma)
                if sf:
                    lack = [o for o in counted if o != q and pts[o][k][0] is None]
                    bad.append(f"{name}: labelled node {k} of animal {q} at ({x}, {y}) has no peak in channel {ch_of(q, k)}: "
                               f"cell {sf[0]} = {sf[1]:.4f}, own Gaussian {sf[2]:.4f}; animals lacking that node: {lack}")
            for c, miss in chans.items():
                if all(miss) and float(cm[c].abs().max()) != 0.0:
                    bad.append(f"{name}: channel {c} of a node missing in every counted animal is not zero")
            if bad:
                chk.disagree(f"{name}: channel >= own kernel of every labelled keypoint (present_multi_channel_nonzero)",
                             case, bad[0], "holds")
                for w in bad[:2]:
                    chk.fail("C11: " + w, case, None, signatures=[])


# ------------------------------------------------------------------ known finding replay
F_C11_WITNESS = {"points": [[[None, None], [4.0, 8.0]], [[1.0, 2.0], [3.0, 4.0]]], "anchor_ind": 0,
                 "dataset": {"kind": "centered", "anchor_part": 1, "crop_hw": [100, 100],
                             "frame": [[[92.5, 202.75], [None, None]], [[205.0, 187.0], [278.5, 203.25]]]}}


def probes(chk, world, tmp):
    """Behaviour OUTSIDE the stated domain, measured on every run and recorded in the evidence
    (never a verdict): what the assumptions in notes/C11.md exclude."""
    import numpy as np
    import torch

    out = {}
    spec_a = {"n_nodes": 2, "n_videos": 1, "frames": [
        {"frame_idx": 0, "video_idx": 0, "insts": [{"kind": "user", "pts": [[10.0, 12.0], [30.5, 20.25]]}]},
        {"frame_idx": 2, "video_idx": 0, "insts": [{"kind": "user", "pts": [[40.0, 50.0], [60.0, 70.5]]}]}]}
    cfg = {"kind": "single", "user_only": True, "max_hw": [None, None], "scale": 1.0, "anchor": None,
           "crop_hw": [32, 32], "max_stride": 16, "np_chunks": True}
    # (a) two chunked datasets sharing ONE directory overwrite each other's sample_<i>.npz
    d = tempfile.mkdtemp(prefix="shared_", dir=tmp)
    a = make_dataset(world.labels(spec_a), cfg, d)
    a0 = snapshot(a[0])
    make_dataset(world.labels(BYSTANDER_SPEC), cfg, d)
    out["shared_chunk_dir_second_dataset_overwrites_first"] = same_sample(a0, a[0]) is not None
    shutil.rmtree(d, ignore_errors=True)
    # (a') an out-of-range index of a chunked dataset finds a file an earlier dataset left in the directory
    d = tempfile.mkdtemp(prefix="leftover_", dir=tmp)
    make_dataset(world.labels(FILLER_SPEC), cfg, d)
    small = make_dataset(world.labels(spec_a), cfg, d)
    out["out_of_range_read_returns_an_earlier_datasets_chunk"] = [len(small), call(small.__getitem__, 3)[0]]
    shutil.rmtree(d, ignore_errors=True)
    # (b) use_existing_chunks=True counts every .npz of the directory
    d = tempfile.mkdtemp(prefix="stray_", dir=tmp)
    make_dataset(world.labels(spec_a), cfg, d)
    np.savez_compressed(os.path.join(d, "zzz_other.npz"), x=np.zeros(1))
    out["use_existing_chunks_len_with_a_stray_npz"] = [len(make_dataset(world.labels(spec_a), cfg, d, True)), 2]
    shutil.rmtree(d, ignore_errors=True)
    # (c) ill-flagged instance (flagged visible, NaN stored): `is_empty` is False
    ill = {"n_nodes": 2, "n_videos": 1, "frames": [{"frame_idx": 0, "video_idx": 0, "insts": [
        {"kind": "user", "pts": [[None, None], [None, None]], "raw": [[None, None, True], [None, None, True]]},
        {"kind": "user", "pts": [[10.0, 12.0], [30.5, 20.25]]}]}]}
    bu = make_dataset(world.labels(ill), dict(cfg, kind="bottomup", np_chunks=False))
    out["ill_flagged_instance_counted_in_num_instances"] = int(bu[0]["num_instances"])
    ce = call(make_dataset, world.labels(ill), dict(cfg, kind="centered", np_chunks=False, anchor=0))
    if ce[0] == "ok":
        s0 = call(ce[1].__getitem__, 0)
        out["ill_flagged_centered"] = {"len": len(ce[1]), "sample0_image_finite":
                                       (bool(torch.isfinite(s0[1]["instance_image"]).all()) if s0[0] == "ok" else f"raise:{s0[1]}")}
    else:
        out["ill_flagged_centered"] = f"raise:{ce[1]}"
    chk.extra["outside_domain_probes"] = out


def replay_known(chk, world):
    import torch
    from sleap_nn.data.instance_centroids import generate_centroids

    ent = next((f for f in chk.known if f["id"] == "F-C11"), None)
    if ent is None:      # never silently: replay the built-in witness as a plain regression
        print("NOTE: F-C11 is missing from KNOWN_FINDINGS.json; replaying the built-in witness as a regression")
    w = ent["witness"] if ent is not None else F_C11_WITNESS
    p = torch.tensor([[[float("nan") if c is None else c for c in q] for q in i] for i in w["points"]])
    p0 = p.clone()
    generate_centroids(p, w["anchor_ind"])
    fn_fails = not same(p, p0)
    d = w["dataset"]
    spec = {"n_nodes": 2, "n_videos": 1, "frames": [{"frame_idx": 0, "video_idx": 0, "insts": [
        {"kind": "user", "pts": [[x * 0.25 if x is not None else None for x in q] for q in i]} for i in d["frame"]]}]}
    cfg = {"kind": d["kind"], "user_only": True, "max_hw": [None, None], "scale": 1.0, "anchor": d["anchor_part"],
           "crop_hw": d["crop_hw"], "max_stride": 16}
    ds = make_dataset(world.labels(spec), cfg)
    s = ds[0]
    inv = not bool(torch.isnan(s["instance"][0, d["anchor_part"]]).any())
    bump = float(s["confidence_maps"][0, d["anchor_part"]].max())
    if ent is not None:
        chk.known_replay("F-C11", still_fails=fn_fails or inv,
                         detail=f"input modified={fn_fails}; dataset sample keeps node missing={not inv}, cm max={bump:.3f}")
    elif fn_fails or inv:
        chk.fail("regression of F-C11 (entry missing from KNOWN_FINDINGS.json): generate_centroids writes the bbox midpoint "
                 "into its input through the anchor view", F_C11_WITNESS, {"input_modified": fn_fails, "invented_keypoint": inv}, ())
    chk.extra["F-C11_entry_present"] = ent is not None
    chk.extra["F-C11_replay"] = {"input_modified": fn_fails, "dataset_invented_keypoint": inv, "confmap_peak": bump}


def main(chk: Check):
    chk.build_and_audit()
    import_repo()
    import torch

    rng = chk.rng
    torch.manual_seed(rng.randrange(2**31))
    tmp = tempfile.mkdtemp(prefix="verif_c11_")
    try:
        world = World(tmp)
        replay_known(chk, world)
        probes(chk, world, tmp)

        # ---- functional API: generate_centroids vs the heap model
        cen_cases = [{"points": [[[None, None], [4.0, 8.0]], [[1.0, 2.0], [3.0, 4.0]]], "anchor": 0, "rank4": False},
                     {"points": [[[1.5, None], [3.0, 4.0], [5.0, 8.0]]], "anchor": 0, "rank4": True},
                     {"points": [[[None, None], [None, None]]], "anchor": 1, "rank4": False}]
        for _ in range(chk.n(1200, 12000)):
            nn = rng.choice([1, 2, 3, 4, 5])
            anchor = rng.choice([None] + list(range(nn)) * 2)
            layout = rng.choice(["rank3", "rank3", "rank4", "rank4", "rank5", "rank2", "strided", "expanded"])
            pts = gen_points(rng, 1 if layout in ("rank2", "expanded") else rng.choice([1, 1, 2, 3, 4]), nn,
                             anchor if anchor is not None else 0)
            if layout == "expanded":
                pts = pts * rng.choice([2, 3])
            cen_cases.append({"points": pts, "anchor": anchor, "rank4": layout == "rank4", "layout": layout})
        lines = []
        for c in cen_cases:
            body = f"{-1 if c['anchor'] is None else c['anchor']} {len(c['points'])} {len(c['points'][0])} " \
                   + " ".join(coords_line(i) for i in c["points"])
            lines += ["cen 1 " + body, "cen 0 " + body]
        out = run_driver("C11.lean", lines)
        for k, c in enumerate(cen_cases):
            centroid_case(chk, c, parse_cen(out[2 * k]), parse_cen(out[2 * k + 1]))

        # ---- the other helpers: purity
        helper_purity(chk, random.Random(f"C11-pure:{chk.seed}"), chk.n(20, 200))

        # ---- functional API: labelled keypoints keep their confidence-map peak
        multi_confmap_cases(chk, random.Random(f"C11-cm:{chk.seed}"), chk.n(150, 1500))

        # ---- datasets
        ds_cases = []
        w = next((f for f in chk.known if f["id"] == "F-C11"), None)
        for kind in KINDS:     # fixed regression cases first: the design's end-to-end witness, every class
            spec = {"n_nodes": 2, "n_videos": 1, "frames": [{"frame_idx": 0, "video_idx": 0, "insts": [
                {"kind": "user", "pts": [[23.125, 50.6875], [None, None]]},
                {"kind": "user", "pts": [[51.25, 46.75], [69.625, 50.8125]]}]}]}
            cfg = {"kind": kind, "user_only": True, "max_hw": [None, None], "scale": 1.0, "anchor": 1,
                   "crop_hw": [32, 32], "max_stride": 16}
            ds_cases.append({"spec": spec, "cfg": cfg, "seq": [0, 1, 0, 0, 1, 7], "bystander": True, "pre_helpers": True})
            # validation dataset as ModelTrainer builds it: apply_aug=False, TRAINING data_config (flag True)
            ds_cases.append({"spec": spec, "cfg": dict(cfg, cfg_aug_flag=True), "seq": [0, 0, 1, 0]})
            # three embedded videos of one file (equal filename), labelled frames in the later videos
            mv = {"n_nodes": 2, "n_videos": 3, "shared_filename": True, "frames": [
                {"frame_idx": 2, "video_idx": 2, "insts": [{"kind": "user", "pts": [[20.0, 30.5], [41.25, 52.0]]}]},
                {"frame_idx": 1, "video_idx": 1, "insts": [{"kind": "user", "pts": [[10.0, 12.0], [30.5, 20.25]]},
                                                           {"kind": "user", "pts": [[40.0, 33.0], [22.0, 8.5]]}]},
                {"frame_idx": 2, "video_idx": 0, "insts": [{"kind": "user", "pts": [[60.0, 70.5], [None, None]]}]}]}
            ds_cases.append({"spec": mv, "cfg": dict(cfg, anchor=0), "seq": [0, 1, 2, 0, 1, 2]})
            if kind != "single":      # every run: write into a directory that holds another dataset's chunks
                ds_cases.append({"spec": spec, "cfg": dict(cfg, np_chunks=True), "seq": [0, 0], "stale": True})
        for _ in range(chk.n(900, 8000)):
            spec = gen_labels_spec(rng)
            cfg = gen_cfg(rng, spec)
            n = len(expected_rows(spec, cfg))
            seq = [rng.randrange(n) for _ in range(rng.choice([2, 4, 2 * n + 2]))] if n else []
            if rng.random() < 0.15:
                seq.insert(rng.randrange(len(seq) + 1), n + rng.randrange(3))   # KeyError index
            ds_cases.append({"spec": spec, "cfg": cfg, "seq": seq, "bystander": rng.random() < 0.25,
                             "poke": rng.random() < 0.25, "pre_helpers": rng.random() < 0.3,
                             # (valid indices only: an out-of-range read would find the earlier dataset's file)
                             "stale": rng.random() < 0.5 and all(i < n for i in seq)})
        lines = []
        for c in ds_cases:
            lines += [ds_line(1, c["spec"], c["cfg"], c["seq"]), ds_line(0, c["spec"], c["cfg"], c["seq"])]
        out = run_driver("C11.lean", lines)
        for k, c in enumerate(ds_cases):
            if out[2 * k] == "bad-op":
                raise RuntimeError("driver rejected: " + lines[2 * k][:300])
            run_dataset_case(chk, world, c, parse_ds(out[2 * k]), parse_ds(out[2 * k + 1]), tmp)
    finally:
        shutil.rmtree(tmp, ignore_errors=True)


def replay(chk: Check, payload):
    import_repo()
    case = payload.get("case") or payload["disagreements"][0]["case"]
    tmp = tempfile.mkdtemp(prefix="verif_c11_")
    try:
        if "points" in case and "num_instances" in case:
            multi_confmap_cases(chk, random.Random(f"C11-cm:{payload['seed']}"), 1500 if payload.get("tier") == "thorough" else 150)
        elif "points" in case:
            body = f"{-1 if case['anchor'] is None else case['anchor']} {len(case['points'])} {len(case['points'][0])} " \
                   + " ".join(coords_line(i) for i in case["points"])
            out = run_driver("C11.lean", ["cen 1 " + body, "cen 0 " + body])
            centroid_case(chk, case, parse_cen(out[0]), parse_cen(out[1]))
        elif "spec" in case:
            world = World(tmp)
            out = run_driver("C11.lean", [ds_line(1, case["spec"], case["cfg"], case["seq"]),
                                          ds_line(0, case["spec"], case["cfg"], case["seq"])])
            run_dataset_case(chk, world, case, parse_ds(out[0]), parse_ds(out[1]), tmp)
        else:
            # helper-purity cases come from their own seeded stream: re-run that stream
            helper_purity(chk, random.Random(f"C11-pure:{payload['seed']}"), 200 if payload.get("tier") == "thorough" else 20)
        print(f"replayed: failing={len(chk.failing)} disagreements={len(chk.disagreements)}")
    finally:
        shutil.rmtree(tmp, ignore_errors=True)


if __name__ == "__main__":
    chk = Check(
        "C11", module="SleapVerif.Props.C11", theorems=THEOREMS,
        build_targets=["SleapVerif.Model.Datasets", "SleapVerif.Model.Proto"],
        trusted=[
            "Lean 4.33 kernel; axioms ⊆ {propext, Classical.choice, Quot.sound} (audited per run)",
            "hand-written model Datasets.lean (value-level sample spec + heap-level centroid/cache/getitem state machine); tied to /repo by exact comparison on the explored label sets and call sequences only",
            "float32 arithmetic on the k/16 lattice with dyadic scale factors is exact (measured: comparison is exact)",
            "sleap-io object semantics (Instance.numpy() copies, visible = not both NaN, user_instances = exact type Instance)",
            "kornia crop_and_resize / augmentation, torchvision resize, torch exp: not modelled; only their not writing to the arguments is observed",
        ],
        rule="generate_centroids: 1-4 instances x 1-5 nodes, NaN pattern classes full/anchor missing/random/all NaN/one visible/half-NaN, "
             "anchor None or any node, rank 3 and 4; datasets: 1-4 frames over 1-2 synthetic videos cut from the shipped frame, 0-4 instances "
             "(user/predicted, empty, anchorless; every missing node stored either as NaN or as finite xy with visible=False, "
             "anchor included, whole instances hidden), 2-4 nodes, 4 classes x user_only x max_hw x scale x anchor x crop, random __getitem__ "
             "sequences with repeats and out-of-range indices; distinct = distinct (class, labels, config); trivial = empty dataset",
        assumptions=["label coordinates on the k/16 lattice, size ratios dyadic (so float32 == rational arithmetic)",
                     "dataset-level labels use whole-point NaN only (half-NaN points are covered at generate_centroids level)",
                     "labels are well-flagged (a node flagged visible stores coordinates), as sleap-io's constructors guarantee; "
                     "a keypoint is missing iff not visible or NaN (Instance.numpy())",
                     "augmentation off for the determinism and value clauses; a 12 % slice of datasets runs with apply_aug=True "
                     "(all intensity and geometric sub-augmentations at p=1): cache unchanged, label NaN => sample NaN, zero channel, labels untouched",
                     "use_existing_chunks=True trusts its directory (counts every .npz), and two LIVE chunked datasets must not share a "
                     "directory (the later one overwrites sample_<i>.npz) — measured each run in outside_domain_probes; a dataset that WRITES "
                     "its chunks must serve its own samples whatever the directory held before (checked: 50 % of chunked cases start from a "
                     "directory holding another dataset's files)",
                     "ill-flagged labels (a node flagged visible with NaN stored) are outside the domain: compared with the model (as coded) for the "
                     "frame-based classes only; the centered class then returns a non-finite crop (outside_domain_probes)",
                     "the centered class needs a centroid: every non-empty instance has a labelled x and a labelled y",
                     "np_chunks=True cases use a scratch chunk directory (fresh chunks, use_existing_chunks=False)"],
    )
    run_check(chk, main, replay)
